#!/bin/sh
# Builds the fact extractor (offline, nightly) and warms the dependency build cache for /repo and the fixtures.
set -e
cd "$(dirname "$0")"
export CARGO_NET_OFFLINE=true
( cd lsmfacts && cargo +nightly build --release --offline )
python3 - <<'PY'
import sys
sys.path.insert(0, '.')
from rules import facts
f, m = facts.extract('default')
print('facts:', m)
f, m = facts.extract_fixtures()
print('fixtures:', m)
PY
echo "setup ok"
