#!/bin/bash
# usage: [CONFIRM_SLOT=n] confirm_seeded.sh <id> <patch> <demo.rs> [<needs: free text>]   (slots run in parallel)
# Confirms a seeded change in a scratch worktree: builds, full suite passes with the change, demo fails with the
# change and passes without. Writes /verif/seeded/<id>/{patch.diff,demo.rs,meta.json,confirm.log}.
set -u
ID=$1; PATCH=$2; DEMO=$3
SLOT=${CONFIRM_SLOT:-}
WT=/tmp/wt/confirm$SLOT
OUT=/verif/seeded/$ID
mkdir -p "$OUT"
export CARGO_NET_OFFLINE=true CARGO_TARGET_DIR=/tmp/wt/confirm-target${CONFIRM_SLOT:-}
if [ ! -d $WT ]; then git -C /repo worktree add --detach $WT HEAD -q; fi
cd $WT && git checkout -q --detach $(git -C /repo rev-parse HEAD) && git checkout -- . && git clean -fdq tests
LOG=$OUT/confirm.log; : > $LOG
cp "$PATCH" $OUT/patch.diff; cp "$DEMO" $OUT/demo.rs
cp "$DEMO" tests/seeded_demo.rs
# demo on unchanged code
cargo test --offline --test seeded_demo >> $LOG 2>&1; BASE_RC=$?
git apply "$PATCH" >> $LOG 2>&1 || { echo "PATCH DOES NOT APPLY" >> $LOG; }
cargo build --offline >> $LOG 2>&1; BUILD_RC=$?
cargo test --offline --test seeded_demo >> $LOG 2>&1; MUT_RC=$?
rm tests/seeded_demo.rs
cargo nextest run --workspace --no-fail-fast --tool-config-file pb:/w/lib/nextest.toml --profile pb --test-threads 8 --offline > $OUT/suite.log 2>&1; SUITE_RC=$?
SUMMARY=$(grep -E "Summary|tests run" $OUT/suite.log | tail -1)
git checkout -- . ; git clean -fdq tests
echo "id=$ID build_rc=$BUILD_RC demo_unchanged_rc=$BASE_RC demo_mutant_rc=$MUT_RC suite_rc=$SUITE_RC :: $SUMMARY" | tee -a $LOG
tail -5 $OUT/suite.log > $OUT/suite_tail.log; rm -f $OUT/suite.log
python3 - "$ID" "$BUILD_RC" "$BASE_RC" "$MUT_RC" "$SUITE_RC" "$SUMMARY" <<'PY'
import json,sys,os
i,b,base,mut,suite,summ=sys.argv[1:7]
p='/verif/seeded/%s/meta.json'%i
m=json.load(open(p)) if os.path.exists(p) else {}
m.update({"id":i,"confirmed":{"build_rc":int(b),"demo_on_unchanged_rc":int(base),"demo_with_change_rc":int(mut),"suite_with_change_rc":int(suite),"suite_summary":summ,
 "ok": int(b)==0 and int(base)==0 and int(mut)!=0 and int(suite)==0},
 "ran":["cargo test --offline --test seeded_demo (unchanged)","git apply patch.diff","cargo build --offline","cargo test --offline --test seeded_demo (with change)","cargo nextest run --workspace --no-fail-fast --tool-config-file pb:/w/lib/nextest.toml --profile pb --test-threads 8 --offline (with change; the BASELINE command)"]})
json.dump(m,open(p,'w'),indent=1)
PY
