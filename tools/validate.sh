#!/bin/bash
# Both-ways validation of the checker: every mutant under validation/selfmut and seeded/*/patch.diff must be reported by
# the check of its property (exit 1), every benign control under validation/benign must leave ALL checks silent.
# Applies each patch to /repo's working tree, runs the check(s), reverts. Do not run anything else that reads /repo meanwhile.
cd "$(dirname "$0")/.."
V=$(pwd)
OUT=${1:-/tmp/validate.out}; : > $OUT
git -C /repo diff --quiet || { echo "/repo working tree is dirty"; exit 2; }
ALL=$(python3 -c "import json;print(' '.join(c['property_id'] for c in json.load(open('MANIFEST.json'))['checks']))")
run_mutant() { # name patch property
  git -C /repo apply "$V/$2" 2>/dev/null || { echo "| $1 | $3 | patch does not apply |" >> $OUT; return; }
  ./check $3 --no-fixtures --no-evidence --quiet > /tmp/validate_one.log 2>&1; rc=$?
  git -C /repo checkout -- .
  first=$(grep -m1 "  !! " /tmp/validate_one.log | sed 's/^  !! //' | cut -c1-150)
  if [ $rc -eq 1 ]; then echo "| $1 | $3 | reported | $first |" >> $OUT; elif [ $rc -eq 2 ]; then echo "| $1 | $3 | no verdict (does not build) | |" >> $OUT; else echo "| $1 | $3 | **MISSED** | |" >> $OUT; fi
}
echo "## mutants" >> $OUT
for f in validation/selfmut/*.patch; do n=$(basename $f .patch); p=$(echo $n | cut -c1-3 | tr a-z A-Z); run_mutant "$n" "$f" "$p"; done
for d in seeded/*/; do n=$(basename $d); p=$(python3 -c "import json;print(json.load(open('$d/meta.json'))['property'])"); run_mutant "seeded/$n" "$d/patch.diff" "$p"; done
echo "## benign controls" >> $OUT
for f in validation/benign/*.patch; do n=$(basename $f .patch)
  git -C /repo apply "$V/$f" 2>/dev/null || { echo "| $n | patch does not apply |" >> $OUT; continue; }
  bad=""
  for p in $ALL; do ./check $p --no-fixtures --no-evidence --quiet > /tmp/validate_one.log 2>&1 || bad="$bad $p($(grep -m1 '  !! ' /tmp/validate_one.log | cut -c1-90))"; done
  git -C /repo checkout -- .
  if [ -z "$bad" ]; then echo "| $n | silent (all $(echo $ALL | wc -w) checks) |" >> $OUT; else echo "| $n | **FALSE ALARM**:$bad |" >> $OUT; fi
done
cat $OUT
