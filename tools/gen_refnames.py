#!/usr/bin/env python3
"""Regenerates rules/refnames.json: the binding names of every function of /repo as they are when the rules are
(re)confirmed.  Run it only together with a review of the rules (it is the reference the rename tolerance maps to)."""
import json
import os
import sys

HERE = os.path.dirname(os.path.dirname(os.path.abspath(__file__)))
sys.path.insert(0, HERE)
from rules import facts as F          # noqa: E402
from rules import engine as E         # noqa: E402

root = sys.argv[1] if len(sys.argv) > 1 else None
if root:
    F.REPO = root
out = {}
for u in F.UNIVERSES:
    facts, _meta = F.extract(u, quiet=True)
    for h in facts.get("hir", []):
        names = E.hir_binding_names(h)
        if names and h["fn"] not in out:
            out[h["fn"]] = names
with open(os.path.join(HERE, "rules", "refnames.json"), "w") as f:
    json.dump(out, f, indent=0, sort_keys=True)
print("refnames: %d functions" % len(out))
