#!/bin/bash
# Runs every claimed check (default: quick tier) against /repo and rewrites the evidence files.
cd "$(dirname "$0")/.."
TIER=${1:-quick}
rc=0
for p in $(python3 -c "import json;print(' '.join(c['property_id'] for c in json.load(open('MANIFEST.json'))['checks']))"); do
  ./check $p --tier $TIER --quiet > /tmp/run_all_$p.log 2>&1; r=$?
  tail -1 /tmp/run_all_$p.log
  if [ $r -ne 0 ]; then rc=1; echo "  -> exit $r"; grep "VIOLATION\|NO-VERDICT\|ENGINE-BLIND" /tmp/run_all_$p.log | head; fi
done
python3-vt - <<'PY'
import json,jsonschema,glob
s=json.load(open('/root/.vp/EVIDENCE.schema.json'))
for f in sorted(glob.glob('/verif/evidence/*.json')):
    jsonschema.validate(json.load(open(f)),s)
jsonschema.validate(json.load(open('/verif/MANIFEST.json')), json.load(open('/root/.vp/MANIFEST.schema.json')))
print("evidence + manifest valid")
PY
exit $rc
