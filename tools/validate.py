#!/usr/bin/env python3
"""Both-ways validation of the checker, in parallel.

Every mutant under validation/selfmut and every seeded/*/patch.diff must be reported by the check of its property
(exit 1); every benign control under validation/benign must leave ALL checks silent.  Each worker owns a scratch git
worktree of /repo (under /tmp/wt/val<i>) and a private facts cache, applies one patch at a time there and runs
`./check Cxx --root <worktree>`; /repo's working tree is never touched.  Writes VALIDATION.md (table) when --write is given.

usage: tools/validate.py [-j N] [--only SUBSTR] [--write]
"""
import argparse
import glob
import json
import os
import queue
import subprocess
import sys
import threading

V = os.path.dirname(os.path.dirname(os.path.abspath(__file__)))
REPO = "/repo"


def sh(cmd, **kw):
    return subprocess.run(cmd, shell=True, stdout=subprocess.PIPE, stderr=subprocess.STDOUT, text=True, **kw)


def first_report(out):
    for l in out.splitlines():
        if l.startswith("  !! "):
            return l[5:].strip()
    return ""


def run_check(prop, wt, env):
    r = sh("./check %s --root %s --no-fixtures --no-evidence --quiet" % (prop, wt), cwd=V, env=env)
    return r.returncode, r.stdout


MATRIX = False


def worker(i, jobs, results, all_props):
    wt = "/tmp/wt/val%d" % i
    sh("git -C %s worktree remove --force %s" % (REPO, wt))
    r = sh("git -C %s worktree add --detach %s HEAD" % (REPO, wt))
    if r.returncode != 0:
        print(r.stdout)
        return
    env = dict(os.environ, LSMVERIF_CACHE="/tmp/valcache/%d" % i)
    try:
        while True:
            try:
                kind, name, patch, prop = jobs.get_nowait()
            except queue.Empty:
                break
            a = sh("git -C %s apply %s" % (wt, patch))
            if a.returncode != 0:
                res = (kind, name, prop, "patch does not apply", "")
                results.append(res)
                print("%-8s %-32s %-4s %s" % res[:4], flush=True)
                continue
            if kind == "mutant":
                rc, out = run_check(prop, wt, env)
                verdict = {1: "reported", 0: "**MISSED**", 2: "no verdict (does not build)"}.get(rc, "rc=%d" % rc)
                res = (kind, name, prop, verdict, first_report(out)[:160])
                if MATRIX and name.startswith("seeded/"):
                    fired = [prop] if rc == 1 else []
                    for p in all_props:
                        if p != prop and run_check(p, wt, env)[0] == 1:
                            fired.append(p)
                    res = (kind, name, prop, verdict, "fires: " + " ".join(sorted(fired)))
            else:
                bad = []
                for p in all_props:
                    rc, out = run_check(p, wt, env)
                    if rc != 0:
                        bad.append("%s: %s" % (p, first_report(out)[:110] or "rc=%d" % rc))
                res = (kind, name, "all", "silent (all %d checks)" % len(all_props) if not bad else "**FALSE ALARM**", "; ".join(bad))
            sh("git -C %s checkout -- . && git -C %s clean -fdq" % (wt, wt))
            results.append(res)
            print("%-8s %-32s %-4s %s" % res[:4], flush=True)
    finally:
        sh("git -C %s worktree remove --force %s" % (REPO, wt))
        sh("rm -rf /tmp/valcache/%d" % i)


def main():
    ap = argparse.ArgumentParser()
    ap.add_argument("-j", type=int, default=4)
    ap.add_argument("--only", default="")
    ap.add_argument("--write", action="store_true")
    ap.add_argument("--matrix", action="store_true", help="for seeded changes: run every check and list the ones that fire")
    a = ap.parse_args()
    global MATRIX
    MATRIX = a.matrix
    man = json.load(open(os.path.join(V, "MANIFEST.json")))
    all_props = [c["property_id"] for c in man["checks"]]
    jobs = queue.Queue()
    n = 0
    for f in sorted(glob.glob(os.path.join(V, "validation/benign/*.patch"))):
        nm = os.path.basename(f)[:-6]
        if a.only in nm:
            jobs.put(("benign", nm, f, "all")); n += 1
    for f in sorted(glob.glob(os.path.join(V, "validation/selfmut/*.patch"))):
        nm = os.path.basename(f)[:-6]
        if a.only in nm:
            jobs.put(("mutant", nm, f, nm[:3].upper())); n += 1
    for d in sorted(glob.glob(os.path.join(V, "seeded/*/"))):
        nm = "seeded/" + os.path.basename(d.rstrip("/"))
        pf = os.path.join(d, "patch.diff")
        if a.only in nm and os.path.exists(pf):
            prop = json.load(open(os.path.join(d, "meta.json")))["property"]
            jobs.put(("mutant", nm, pf, prop)); n += 1
    results = []
    ths = [threading.Thread(target=worker, args=(i, jobs, results, all_props)) for i in range(min(a.j, n))]
    for t in ths:
        t.start()
    for t in ths:
        t.join()
    results.sort(key=lambda r: (r[0] != "mutant", r[1]))
    mut = [r for r in results if r[0] == "mutant"]
    ben = [r for r in results if r[0] == "benign"]
    lines = ["| change | property | outcome | first report |", "|---|---|---|---|"]
    lines += ["| %s | %s | %s | %s |" % (r[1], r[2], r[3], r[4].replace("|", "\\\\|")) for r in mut]
    lines += ["", "| benign control | outcome | detail |", "|---|---|---|"]
    lines += ["| %s | %s | %s |" % (r[1], r[3], r[4].replace("|", "\\\\|")) for r in ben]
    missed = [r for r in mut if r[3] != "reported"]
    alarms = [r for r in ben if not r[3].startswith("silent")]
    summary = "%d mutants: %d reported, %d not; %d benign controls: %d silent, %d false alarms" % (
        len(mut), len(mut) - len(missed), len(missed), len(ben), len(ben) - len(alarms), len(alarms))
    print(summary)
    for r in missed + alarms:
        print("  ", r)
    out = "\n".join(lines)
    open("/tmp/validate_table.md", "w").write(summary + "\n\n" + out + "\n")
    if a.write:
        head = open(os.path.join(V, "validation/HEADER.md")).read() if os.path.exists(os.path.join(V, "validation/HEADER.md")) else ""
        open(os.path.join(V, "VALIDATION.md"), "w").write(head + "\n" + summary + "\n\n" + out + "\n")
    return 1 if (missed or alarms) else 0


if __name__ == "__main__":
    sys.exit(main())
