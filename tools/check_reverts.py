#!/usr/bin/env python3
"""For every `fixed` entry of known_findings.jsonl: revert the fix commit in a scratch worktree of /repo and check that the
property's check reports the recorded rule key again (exit 1).  /repo itself is not touched.
usage: tools/check_reverts.py   (creates and removes /tmp/wt/revert)"""
import collections
import json
import subprocess
import sys

WT = "/tmp/wt/revert"


def sh(cmd, **kw):
    return subprocess.run(cmd, shell=True, capture_output=True, text=True, **kw)


sh("git -C /repo worktree remove --force %s" % WT)
if sh("git -C /repo worktree add --detach %s HEAD" % WT).returncode != 0:
    sys.exit("cannot create scratch worktree")
ents = [json.loads(l) for l in open("/verif/known_findings.jsonl") if l.strip() and not l.startswith("#")]
by = collections.OrderedDict()
for e in ents:
    if e.get("status") == "fixed":
        by.setdefault((e.get("finding", "?"), e["commit"]), []).append((e["property"], e["key"]))
bad = 0
for (fid, commit), lst in by.items():
    if sh("git -C %s revert --no-commit %s" % (WT, commit)).returncode != 0:
        sh("git -C %s revert --abort; git -C %s reset -q --hard HEAD" % (WT, WT))
        print(fid, commit, "revert conflicts with later fixes - skipped")
        continue
    out = []
    for p in sorted({p for p, _ in lst}):
        c = sh("./check %s --root %s --no-fixtures --no-evidence --quiet" % (p, WT), cwd="/verif")
        keys = [k for pp, k in lst if pp == p]
        hit = [k for k in keys if k.split("|", 1)[1][:60] in c.stdout]
        ok = c.returncode == 1 and len(hit) == len(keys)
        bad += 0 if ok else 1
        out.append("%s rc=%d keys %d/%d%s" % (p, c.returncode, len(hit), len(keys), "" if ok else "  <-- NOT REPORTED"))
    print(fid, commit, "; ".join(out), flush=True)
    sh("git -C %s reset -q --hard HEAD" % WT)
sh("git -C /repo worktree remove --force %s" % WT)
sys.exit(1 if bad else 0)
