#!/usr/bin/env python3
"""Regenerates MANIFEST.json from the property modules under rules/props (one check per module)."""
import importlib
import json
import os
import sys

HERE = os.path.dirname(os.path.dirname(os.path.abspath(__file__)))
sys.path.insert(0, HERE)

ALL = ["C%02d" % i for i in range(1, 21)]
NA_REASONS = {}
TECH = "static analysis: repository-specific MIR/HIR rules over facts from a rustc_private driver"

checks = []
na = []
for pid in ALL:
    try:
        mod = importlib.import_module("rules.props." + pid.lower())
    except ImportError:
        mod = None
    if mod is None or getattr(mod, "NOT_CLAIMED", False):
        na.append({"property_id": pid,
                   "reason": NA_REASONS.get(pid, "no static check built for it yet (planned clauses: DESIGN.md §3 %s)" % pid)})
        continue
    checks.append({
        "property_id": pid,
        "quick_cmd": "./check %s --tier quick" % pid,
        "thorough_cmd": "./check %s --tier thorough" % pid,
        "evidence_file": "/verif/evidence/%s.json" % pid,
        "replay_cmd_template": "./check %s --replay {path}" % pid,
        "engine": "lsmrules",
        "level_claimed": {
            "category": "other",
            "text": mod.LEVEL_TEXT,
            "design_ref": "DESIGN.md §3 %s" % pid,
        },
        "level_note": getattr(mod, "LEVEL_NOTE",
                              "Trusted: rustc's MIR construction and trait resolution; the CFG over-approximates every "
                              "execution; ~15 library models (DESIGN.md §2.3 M); bodies of dependencies/std and "
                              "cfg(windows|test) code are not analysed. Decides the named structural clauses only, not "
                              "the behaviour itself."),
        "technique": getattr(mod, "TECHNIQUE", TECH),
    })

manifest = {
    "version": 1,
    "setup_cmd": "./setup.sh",
    "hooks": {
        "guard": "lsm_tree_verif",
        "enable": "none needed: the checks analyse /repo's working tree as built by `cargo +nightly check --lib` "
                  "(no instrumentation in the sources)",
        "baseline_off_cmd": "cd /repo && (cargo nextest run --workspace --no-fail-fast --tool-config-file pb:/w/lib/nextest.toml "
                            "--profile pb --test-threads 8 --offline || cargo test --workspace --no-fail-fast --offline)",
        "source_commits": [],
        "add_only": True,
    },
    "engines": [
        {"name": "lsmfacts", "path": "/verif/lsmfacts", "serves_properties": [c["property_id"] for c in checks],
         "kind_free_text": "rustc_private driver (nightly) run as RUSTC_WORKSPACE_WRAPPER under cargo check on /repo; "
                           "dumps ADTs, impls, MIR CFGs with resolved callees, typed HIR trees as JSON"},
        {"name": "lsmrules", "path": "/verif/rules", "serves_properties": [c["property_id"] for c in checks],
         "kind_free_text": "Python rule evaluator: success-CFG, must-pass-through with summaries, success-ordering, "
                           "who-may-call census, lock dataflow, def-use, control dependence, codec/sibling agreement"},
        {"name": "fixtures", "path": "/verif/fixtures", "serves_properties": [c["property_id"] for c in checks],
         "kind_free_text": "violating/conforming twins per rule kind; every run requires each kind to fire"},
    ],
    "checks": checks,
    "not_applicable": na,
    "notes": "Exit 0 = all decided clauses hold; exit 1 + VIOLATION lines = unlisted violation; exit 2 = no verdict "
             "(tree does not build / engine blind). Known findings: /verif/known_findings.jsonl. Genuine defects "
             "repaired in /repo by `fix:` commits are listed there as fixed.",
}
with open(os.path.join(HERE, "MANIFEST.json"), "w") as f:
    json.dump(manifest, f, indent=1)
print("checks:", [c["property_id"] for c in checks], "n/a:", [n["property_id"] for n in na])
