//! Positive fixtures for the rule engine: one minimal violating example (and a conforming twin) per rule kind.
//! Every check run extracts this crate with the same driver and requires each rule kind to fire on the
//! `bad_*` item and stay silent on the `good_*` twin; otherwise the engine is blind and gives no verdict.
#![allow(dead_code, unused_variables, clippy::all)]

use std::collections::VecDeque;
use std::fs::File;
use std::io::Write;
use std::path::Path;
use std::sync::atomic::{AtomicBool, Ordering};
use std::sync::{Mutex, RwLock};

pub fn fsync_directory(path: &Path) -> std::io::Result<()> {
    let file = File::open(path)?;
    file.sync_all()
}

// ---------------------------------------------------------------- (P) must-pass-through
pub mod p {
    use super::*;

    pub fn bad_publish_unsynced(path: &Path, data: &[u8]) -> std::io::Result<u64> {
        let mut f = File::create(path)?;
        f.write_all(data)?;
        if data.len() > 4 {
            f.sync_all()?;
            fsync_directory(path.parent().unwrap())?;
        }
        // the short path returns the id without syncing
        Ok(data.len() as u64)
    }

    pub fn good_publish_synced(path: &Path, data: &[u8]) -> std::io::Result<u64> {
        let mut f = File::create(path)?;
        f.write_all(data)?;
        f.sync_all()?;
        sync_parent(path)?;
        Ok(data.len() as u64)
    }

    // wrapper: a must-summary has to see through it
    fn sync_parent(path: &Path) -> std::io::Result<()> {
        fsync_directory(path.parent().unwrap())
    }
}

// ---------------------------------------------------------------- (O) success-ordered
pub mod p2 {
    use super::*;

    /// ends with a directory sync itself - must not count as "a directory sync before the switch"
    pub fn switch_current(path: &Path) -> std::io::Result<()> {
        std::fs::rename(path.with_extension("tmp"), path)?;
        fsync_directory(path.parent().unwrap_or(path))
    }

    pub fn bad_switch_before_dirsync(dir: &Path, data: &[u8]) -> std::io::Result<()> {
        let mut f = File::create(dir.join("v1"))?;
        f.write_all(data)?;
        f.sync_all()?;
        switch_current(&dir.join("current"))
    }

    pub fn good_dirsync_then_switch(dir: &Path, data: &[u8]) -> std::io::Result<()> {
        let mut f = File::create(dir.join("v1"))?;
        f.write_all(data)?;
        f.sync_all()?;
        fsync_directory(dir)?;
        switch_current(&dir.join("current"))
    }
}

pub mod k2 {
    /// licensing edges: the insertion must be unreachable once the licensing edge is cut
    pub fn good_licensed(sizes: &[u64], limit: u64) -> Vec<u64> {
        let mut out = Vec::new();
        let total: u64 = sizes.iter().sum();
        if total > limit {
            for s in sizes {
                out.push(*s);
            }
        }
        out
    }

    pub fn bad_or_licensed(sizes: &[u64], limit: u64, force: bool) -> Vec<u64> {
        let mut out = Vec::new();
        let total: u64 = sizes.iter().sum();
        if total > limit || force {
            for s in sizes {
                out.push(*s);
            }
        }
        out
    }
}

pub mod o {
    use super::*;

    pub fn publish(path: &Path) -> std::io::Result<()> {
        File::create(path)?.sync_all()
    }

    pub fn bad_delete_before_publish(new: &Path, old: &Path) -> std::io::Result<()> {
        std::fs::remove_file(old)?;
        publish(new)?;
        Ok(())
    }

    pub fn bad_delete_after_swallowed_publish(new: &Path, old: &Path) -> std::io::Result<()> {
        if let Err(e) = publish(new) {
            eprintln!("publish failed: {e}");
        }
        std::fs::remove_file(old)?;
        Ok(())
    }

    pub fn good_delete_after_publish(new: &Path, old: &Path) -> std::io::Result<()> {
        publish(new)?;
        std::fs::remove_file(old)?;
        Ok(())
    }
}

// ---------------------------------------------------------------- (K) control dependence + (W) field writers
pub mod k {
    use super::*;

    pub struct Inner {
        pub path: std::path::PathBuf,
        pub is_deleted: AtomicBool,
    }

    pub struct BadInner {
        pub path: std::path::PathBuf,
        pub is_deleted: AtomicBool,
    }

    impl Drop for Inner {
        fn drop(&mut self) {
            if self.is_deleted.load(Ordering::Acquire) {
                let _ = std::fs::remove_file(&self.path);
            }
        }
    }

    impl Drop for BadInner {
        fn drop(&mut self) {
            let flag = self.is_deleted.load(Ordering::Acquire);
            let _ = std::fs::remove_file(&self.path);
            if flag {
                eprintln!("deleted");
            }
        }
    }

    pub fn good_mark(i: &Inner) {
        i.is_deleted.store(true, Ordering::Release);
    }
}

// ---------------------------------------------------------------- (E) error discipline
pub mod e {
    use super::*;

    pub fn bad_swallow(p: &Path) -> std::io::Result<()> {
        let _ = std::fs::remove_file(p);
        if let Err(e) = fsync_directory(p) {
            eprintln!("sync failed: {e}");
        }
        Ok(())
    }

    pub fn good_propagate(p: &Path) -> std::io::Result<()> {
        fsync_directory(p)?;
        if let Err(e) = std::fs::remove_file(p) {
            eprintln!("unlink failed: {e}");
            return Err(e);
        }
        std::fs::remove_file(p)
    }
}

// ---------------------------------------------------------------- (MV) writers consumed on every success path
pub mod mv {
    use super::*;

    pub struct FileWriter {
        pub path: std::path::PathBuf,
        pub file: File,
    }

    impl FileWriter {
        pub fn new(path: &Path) -> std::io::Result<Self> {
            Ok(Self { path: path.into(), file: File::create(path)? })
        }
        pub fn finish(self) -> std::io::Result<u64> {
            self.file.sync_all()?;
            Ok(1)
        }
    }

    pub struct Job {
        pub writer: FileWriter,
        pub count: usize,
    }

    impl Job {
        pub fn bad_finish(self) -> std::io::Result<()> {
            if self.count == 0 {
                // early success return drops self.writer: its file stays behind
                return Ok(());
            }
            self.writer.finish()?;
            Ok(())
        }

        pub fn good_finish(self) -> std::io::Result<()> {
            if self.count == 0 {
                self.writer.finish()?;
                return Ok(());
            }
            self.writer.finish()?;
            Ok(())
        }

        pub fn good_cleanup(self) -> std::io::Result<()> {
            if self.count == 0 {
                std::fs::remove_file(&self.writer.path)?;
                return Ok(());
            }
            self.writer.finish()?;
            Ok(())
        }
    }
}

// ---------------------------------------------------------------- (L) lock context, (D) def-use across closures
pub mod l {
    use super::*;

    pub struct Versions(pub VecDeque<u64>);

    pub struct Tree {
        pub history: RwLock<Versions>,
        pub state: Mutex<Vec<u64>>,
    }

    impl Tree {
        pub fn good_insert(&self, v: u64) -> usize {
            self.history.read().expect("poisoned").0.iter().filter(|x| **x == v).count()
        }

        pub fn bad_insert(&self, v: u64) -> usize {
            let n = self.history.read().expect("poisoned").0.len();
            // guard released: the work below runs unprotected
            work(n, v)
        }

        pub fn good_insert_stmt(&self, v: u64) -> usize {
            let guard = self.history.read().expect("poisoned");
            let n = guard.0.len();
            work(n, v)
        }

        /// one snapshot per read
        pub fn good_one_read(&self, v: u64) -> usize {
            let guard = self.history.read().expect("poisoned");
            let n = guard.0.len();
            let m = guard.0.iter().filter(|x| **x == v).count();
            n + m
        }

        pub fn bad_two_reads(&self, v: u64) -> usize {
            let n = self.good_insert(v);
            let m = self.history.read().expect("poisoned").0.len();
            n + m
        }

        pub fn good_order(&self) {
            let mut s = self.state.lock().expect("poisoned");
            let mut h = self.history.write().expect("poisoned");
            s.push(1);
            h.0.push_back(1);
        }

        pub fn bad_order(&self) {
            let mut h = self.history.write().expect("poisoned");
            let mut s = self.state.lock().expect("poisoned");
            s.push(1);
            h.0.push_back(1);
        }
    }

    pub fn work(n: usize, v: u64) -> usize {
        n + v as usize
    }
}

pub mod d {
    pub fn upgrade<F: FnOnce(&Vec<u64>) -> Vec<u64>>(cur: &mut Vec<u64>, f: F) {
        let next = f(cur);
        *cur = next;
    }

    pub fn good_commit_on_current(cur: &mut Vec<u64>, add: u64) {
        upgrade(cur, |current| {
            let mut copy = current.clone();
            copy.push(add);
            copy
        });
    }

    pub fn bad_commit_on_stale(cur: &mut Vec<u64>, add: u64) {
        let snapshot = cur.clone();
        upgrade(cur, |_current| {
            let mut copy = snapshot.clone();
            copy.push(add);
            copy
        });
    }
}

// ---------------------------------------------------------------- (F) field completeness, (G) codec agreement, (A) swapped arguments
pub mod fga {
    use std::io::{Read, Write};

    #[derive(Default, Clone, Copy)]
    pub struct Entry {
        pub len: usize,
        pub bytes: u64,
        pub on_disk_bytes: u64,
    }

    impl Entry {
        pub fn new(len: usize, bytes: u64, on_disk_bytes: u64) -> Self {
            Self { len, bytes, on_disk_bytes }
        }
    }

    pub fn good_merge(a: &mut Entry, b: &Entry) {
        a.len += b.len;
        a.bytes += b.bytes;
        a.on_disk_bytes += b.on_disk_bytes;
    }

    pub fn bad_merge(a: &mut Entry, b: &Entry) {
        a.len += b.len;
        a.bytes += b.bytes;
    }

    fn write_u64<W: Write>(w: &mut W, v: u64) -> std::io::Result<()> {
        w.write_all(&v.to_le_bytes())
    }
    fn read_u64<R: Read>(r: &mut R) -> std::io::Result<u64> {
        let mut b = [0u8; 8];
        r.read_exact(&mut b)?;
        Ok(u64::from_le_bytes(b))
    }

    pub fn encode<W: Write>(e: &Entry, w: &mut W) -> std::io::Result<()> {
        write_u64(w, e.len as u64)?;
        write_u64(w, e.bytes)?;
        write_u64(w, e.on_disk_bytes)?;
        Ok(())
    }

    pub fn good_decode<R: Read>(r: &mut R) -> std::io::Result<Entry> {
        let len = read_u64(r)?;
        let bytes = read_u64(r)?;
        let on_disk_bytes = read_u64(r)?;
        Ok(Entry::new(len as usize, bytes, on_disk_bytes))
    }

    pub fn bad_decode_swapped<R: Read>(r: &mut R) -> std::io::Result<Entry> {
        let len = read_u64(r)?;
        let on_disk_bytes = read_u64(r)?;
        let bytes = read_u64(r)?;
        Ok(Entry::new(len as usize, bytes, on_disk_bytes))
    }

    pub fn bad_call_swapped(len: usize, bytes: u64, on_disk_bytes: u64) -> Entry {
        Entry::new(len, on_disk_bytes, bytes)
    }

    pub fn good_call(len: usize, bytes: u64, on_disk_bytes: u64) -> Entry {
        Entry::new(len, bytes, on_disk_bytes)
    }
}
