"""Shared structural analysis of compaction::stream::CompactionStream::next / drain_key (typed HIR).

The stream decides which entries survive a flush or compaction; five properties (C01, C02, C09, C13, C17) each
need a clause about it.  The function is analysed as a table of *sites* (discards, emissions, callbacks, filter
calls, field writes), each with the structural conditions guarding it and the statements preceding it."""
import re

from rules.engine import hir_sites, hir_walk, hir_expr_str, pat_str, AnchorMissing

NEXT_RX = re.compile(r"^<compaction::stream::CompactionStream<.*> as std::iter::Iterator>::next$")
DRAIN = "compaction::stream::CompactionStream::<'a, I, F>::drain_key"


def unconditional_nodes(n, allow_iflet_callback=True):
    """Nodes of a statement that are evaluated whenever the statement is (no descent into branches, arms, loops, closures)."""
    if isinstance(n, list):
        for x in n:
            for y in unconditional_nodes(x, allow_iflet_callback):
                yield y
        return
    if not isinstance(n, dict):
        return
    yield n
    k = n.get("k")
    if k == "if":
        for y in unconditional_nodes(n["c"], allow_iflet_callback):
            yield y
        c = n["c"]
        if allow_iflet_callback and c.get("k") == "letx" and "dropped_callback" in hir_expr_str(c["init"]) and "e" not in n:
            for y in unconditional_nodes(n["t"], allow_iflet_callback):
                yield y
        return
    if k == "match":
        for y in unconditional_nodes(n["e"], allow_iflet_callback):
            yield y
        return
    if k in ("loop", "for", "closure"):
        if k == "for":
            for y in unconditional_nodes(n["iter"], allow_iflet_callback):
                yield y
        return
    if k == "block":
        for st in n.get("s", []):
            for y in unconditional_nodes(st, allow_iflet_callback):
                yield y
        if "e" in n:
            for y in unconditional_nodes(n["e"], allow_iflet_callback):
                yield y
        return
    for kk, v in n.items():
        if kk in ("pat", "params"):
            continue
        if isinstance(v, (dict, list)):
            for y in unconditional_nodes(v, allow_iflet_callback):
                yield y


class StreamModel:
    def __init__(self, prog):
        self.prog = prog
        keys = [k for k in prog.hir if NEXT_RX.match(k)]
        if not keys:
            raise AnchorMissing("hir", "CompactionStream::next")
        self.path = keys[0]
        self.body = prog.hir[self.path]["body"]
        self.fn = prog.fns.get(self.path)
        dk = [k for k in prog.hir if k.startswith("compaction::stream::CompactionStream") and k.endswith("::drain_key")]
        if not dk:
            raise AnchorMissing("hir", "CompactionStream::drain_key")
        self.drain_path = dk[0]
        self.drain_body = prog.hir[self.drain_path]["body"]
        self._roles()
        self.sites_all = hir_sites(self.body, lambda n: True)

    # -- roles: which local is the item being decided ("head") and which the look-ahead ("peeked")
    def _roles(self):
        self.head = None
        self.peeked = None
        for n in hir_walk(self.body):
            if n.get("k") == "let" and n.get("init") is not None and n["pat"].get("k") == "bind" and self.head is None:
                calls = [m for m in hir_walk(n["init"]) if m.get("k") == "mcall" and m.get("m") == "next"
                         and hir_expr_str(m["r"]) == "self.inner"]
                if calls:
                    self.head = n["pat"]["n"]
            if n.get("k") == "letx" and self.peeked is None:
                if hir_expr_str(n["init"]) == "self.inner.peek()" and n["pat"].get("k") == "pts" and n["pat"]["a"] \
                        and n["pat"]["a"][0].get("k") == "bind":
                    self.peeked = n["pat"]["a"][0]["n"]
        if not self.head:
            raise AnchorMissing("role", "head item of CompactionStream::next (let .. = self.inner.next())")
        if not self.peeked:
            raise AnchorMissing("role", "peeked item of CompactionStream::next (if let Some(..) = self.inner.peek())")

    def norm(self, text):
        t = re.sub(r"\b%s\b" % re.escape(self.head), "HEAD", text)
        t = re.sub(r"\b%s\b" % re.escape(self.peeked), "PEEKED", t)
        t = t.replace("value_type::ValueType::", "ValueType::")
        return t

    def guards(self, site):
        return [self.norm(g) for g in site.guard_texts()]

    def sites(self, pred):
        return [s for s in self.sites_all if pred(s.node)]

    # -- site classes
    def discards(self):
        return self.sites(lambda n: n.get("k") == "continue")

    def emissions(self):
        out = []
        for s in self.sites(lambda n: n.get("k") == "ret"):
            e = s.node.get("e")
            if e and hir_expr_str(e).replace(" ", "") in ("std::option::Option::Some(std::result::Result::Ok(%s))" % self.head,):
                out.append(s)
        return out

    def calls(self, method):
        return self.sites(lambda n: n.get("k") == "mcall" and n.get("m") == method)

    def before_texts(self, site):
        return [self.norm(hir_expr_str(b, 200)) for b in site.before]

    def before_has_call(self, site, method, arg=None, allow_iflet_callback=True):
        """Is a call of `method` (optionally with the given normalised argument text) executed unconditionally by one
        of the statements preceding the site?  Conditional sub-blocks of those statements (if/else branches, match
        arms, loops, closures) are not searched - except the `if let Some(w) = &mut self.dropped_callback { w.m(..) }`
        idiom, whose only condition is the presence of the callback."""
        for b in site.before:
            for m in unconditional_nodes(b, allow_iflet_callback):
                if m.get("k") == "mcall" and m.get("m") == method:
                    if arg is None or any(self.norm(hir_expr_str(a)) == arg for a in m["a"]):
                        return True
        return False

    def let_def(self, name):
        for n in hir_walk(self.body):
            if n.get("k") == "let" and n["pat"].get("k") == "bind" and n["pat"]["n"] == name and n.get("init") is not None:
                return self.norm(hir_expr_str(n["init"], 300))
        return None

    # -- classification of a discard site
    TOMB_TESTS = ("HEAD.is_tombstone()", "(HEAD.key.value_type == ValueType::Tombstone)")
    SAME_KEY = "!(PEEKED.key.user_key > HEAD.key.user_key)"
    NEXT_KEY = "(PEEKED.key.user_key > HEAD.key.user_key)"
    # derived from the specification, not from the code: the older versions of a key may go only if the entry that
    # shadows them (HEAD) is visible to every snapshot above the watermark W, i.e. HEAD.seqno <= W  (finding F10: the
    # code used to test the *older* entry, PEEKED.seqno < W)
    BELOW_WATERMARK = "(HEAD.key.seqno <= self.gc_seqno_threshold)"

    def classify_discard(self, site):
        g = self.guards(site)
        if any(x.endswith("~ compaction::stream::StreamFilterVerdict::Drop") for x in g):
            return "filter-drop"
        if "self.evict_tombstones" in g and any(t in g for t in self.TOMB_TESTS):
            return "tombstone-eviction"
        if "drop_weak_tombstone" in g:
            return "weak-annihilation"
        return "unguarded"
