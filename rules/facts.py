"""Fact extraction management: runs the lsmfacts driver over /repo's current working tree
(or the fixtures crate) and caches the JSON fact file keyed by a content hash."""
import fcntl
import glob
import hashlib
import json
import os
import shutil
import subprocess
import sys
import time

VERIF = os.path.dirname(os.path.dirname(os.path.abspath(__file__)))
REPO = os.environ.get("LSM_REPO", "/repo")
CACHE = os.environ.get("LSMVERIF_CACHE") or os.path.join(VERIF, ".cache")
DRIVER_DIR = os.path.join(VERIF, "lsmfacts")
DRIVER = os.path.join(DRIVER_DIR, "target", "release", "lsmfacts")

UNIVERSES = {
    "default": [],
    "lz4": ["lz4"],
    "metrics": ["metrics"],
    "bytes_1": ["bytes_1"],
    "all": ["lz4", "metrics", "bytes_1"],
}

BODY_FLOOR = 1200  # the crate has 1476 fn-like bodies today; far fewer means a broken extraction


class ExtractionError(Exception):
    pass


def _sysroot():
    return subprocess.check_output(["rustc", "+nightly", "--print", "sysroot"], text=True).strip()


def build_driver(force=False):
    srcs = sorted(glob.glob(os.path.join(DRIVER_DIR, "src", "*.rs"))) + [os.path.join(DRIVER_DIR, "Cargo.toml")]
    if not force and os.path.exists(DRIVER):
        newest = max(os.path.getmtime(s) for s in srcs)
        if os.path.getmtime(DRIVER) >= newest:
            return
    env = dict(os.environ, CARGO_NET_OFFLINE="true")
    r = subprocess.run(["cargo", "+nightly", "build", "--release", "--offline"], cwd=DRIVER_DIR, env=env,
                       stdout=subprocess.PIPE, stderr=subprocess.STDOUT, text=True)
    if r.returncode != 0 or not os.path.exists(DRIVER):
        raise ExtractionError("cannot build lsmfacts driver:\n" + r.stdout[-4000:])


def _hash_files(paths, extra=b""):
    h = hashlib.sha256()
    h.update(extra)
    for p in sorted(paths):
        h.update(p.encode())
        h.update(b"\0")
        try:
            with open(p, "rb") as f:
                h.update(f.read())
        except OSError:
            h.update(b"<missing>")
        h.update(b"\0")
    return h.hexdigest()[:24]


def tree_hash(root, universe):
    files = glob.glob(os.path.join(root, "src", "**", "*.rs"), recursive=True)
    files += [os.path.join(root, "Cargo.toml"), os.path.join(root, "Cargo.lock"), DRIVER]
    return _hash_files(files, extra=universe.encode())


def _run_cargo(root, crate_name, out_dir, target_dir, features):
    env = dict(os.environ)
    env.update({
        "LD_LIBRARY_PATH": _sysroot() + "/lib" + (":" + env["LD_LIBRARY_PATH"] if env.get("LD_LIBRARY_PATH") else ""),
        "CARGO_NET_OFFLINE": "true",
        "RUSTFLAGS": "-Zmir-opt-level=0 --cap-lints allow",
        "RUSTC_WORKSPACE_WRAPPER": DRIVER,
        "LSMFACTS_OUT": out_dir,
        "LSMFACTS_CRATES": crate_name,
        "CARGO_TARGET_DIR": target_dir,
        "CARGO_INCREMENTAL": "0",
    })
    env.pop("RUSTC_WRAPPER", None)
    # cargo's freshness cache would replay an old run without invoking the driver
    for fp in glob.glob(os.path.join(target_dir, "debug", ".fingerprint", crate_name.replace("_", "-") + "-*")):
        shutil.rmtree(fp, ignore_errors=True)
    cmd = ["cargo", "+nightly", "check", "--offline", "--lib"]
    if features:
        cmd += ["--features", ",".join(features)]
    r = subprocess.run(cmd, cwd=root, env=env, stdout=subprocess.PIPE, stderr=subprocess.STDOUT, text=True)
    return r


def extract(universe="default", root=None, crate_name="lsm_tree", body_floor=BODY_FLOOR, quiet=False):
    """Returns (facts_dict, meta). Raises ExtractionError when the tree does not build."""
    root = root or REPO
    build_driver()
    if universe not in UNIVERSES:
        raise ExtractionError("unknown universe " + universe)
    tag = crate_name + "-" + universe
    h = tree_hash(root, universe)
    fdir = os.path.join(CACHE, "facts", tag)
    os.makedirs(fdir, exist_ok=True)
    cached = os.path.join(fdir, h + ".json")
    target_dir = os.path.join(CACHE, "target", tag)
    os.makedirs(target_dir, exist_ok=True)
    t0 = time.time()
    lock_path = os.path.join(fdir, ".lock")
    with open(lock_path, "w") as lk:
        fcntl.flock(lk, fcntl.LOCK_EX)
        fresh = False
        if not os.path.exists(cached):
            out_dir = os.path.join(fdir, "out")
            shutil.rmtree(out_dir, ignore_errors=True)
            os.makedirs(out_dir)
            r = _run_cargo(root, crate_name, out_dir, target_dir, UNIVERSES[universe])
            produced = os.path.join(out_dir, crate_name + ".facts.json")
            if r.returncode != 0 or not os.path.exists(produced):
                raise ExtractionError("extraction failed for universe %s (cargo exit %s):\n%s"
                                      % (universe, r.returncode, r.stdout[-6000:]))
            os.replace(produced, cached)
            fresh = True
            # keep the cache small: drop older fact files of this universe
            olds = sorted((o for o in glob.glob(os.path.join(fdir, "*.json")) if o != cached), key=os.path.getmtime)
            for old in olds[:-3]:
                try:
                    os.remove(old)
                except OSError:
                    pass
        fcntl.flock(lk, fcntl.LOCK_UN)
    with open(cached) as f:
        facts = json.load(f)
    if facts.get("crate") != crate_name:
        raise ExtractionError("fact file is for crate %r, expected %r" % (facts.get("crate"), crate_name))
    if len(facts.get("fns", [])) < body_floor:
        raise ExtractionError("fact file has %d bodies, floor is %d" % (len(facts.get("fns", [])), body_floor))
    meta = {"universe": universe, "hash": h, "fresh": fresh, "extract_s": round(time.time() - t0, 2),
            "bodies": len(facts["fns"]), "hir_bodies": len(facts.get("hir", [])), "root": root}
    if not quiet:
        print("[facts] universe=%s hash=%s bodies=%d %s (%.1fs)" % (universe, h, meta["bodies"],
              "extracted" if fresh else "cached", meta["extract_s"]), file=sys.stderr)
    return facts, meta


def extract_fixtures():
    root = os.path.join(VERIF, "fixtures")
    return extract("default", root=root, crate_name="lsmfix", body_floor=10, quiet=True)


if __name__ == "__main__":
    u = sys.argv[1] if len(sys.argv) > 1 else "default"
    f, m = extract(u)
    print(m)
