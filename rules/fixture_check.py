"""Engine self-control: every rule kind must fire on its violating fixture and stay silent on the conforming
twin (fixtures/src/lib.rs), using the same driver and the same primitives as the property rules."""
from rules import facts as factsmod
from rules import engine as E

SYNC_ALL = "std::fs::File::sync_all"
REMOVE = "std::fs::remove_file"


def _p(prog):
    out = []
    ds = E.MustSet(prog, ["fsync_directory"], "fix-dirsync")
    for name, expect in (("p::bad_publish_unsynced", False), ("p::good_publish_synced", True)):
        f = prog.need(name)
        wr = f.calls_to("std::io::Write::write_all")
        syncs = {c.bb for c in f.calls_to(SYNC_ALL)}
        ok = bool(wr) and E.must_pass(f, syncs, from_bbs=[wr[0].bb]) and E.must_pass(f, ds, from_bbs=list(syncs))
        out.append(("P", name, ok == expect))
    return out


def _o(prog):
    out = []
    for name, expect in (("o::bad_delete_before_publish", False), ("o::bad_delete_after_swallowed_publish", False),
                         ("o::good_delete_after_publish", True)):
        f = prog.need(name)
        pub = f.calls_to("o::publish")[0]
        rm = f.calls_to(REMOVE)[0]
        ok, _why = E.success_ordered(f, pub, rm.bb)
        out.append(("O", name, ok == expect))
    return out


def _k(prog):
    from rules.props.c05 import is_deleted_guarded
    out = []
    for name, expect in (("<k::Inner as std::ops::Drop>::drop", True), ("<k::BadInner as std::ops::Drop>::drop", False)):
        f = prog.need(name)
        rm = f.calls_to(REMOVE)[0]
        out.append(("K", name, is_deleted_guarded(prog, f, rm.bb) == expect))
    return out


def _w(prog):
    # census: exactly the expected callers of remove_file are seen
    callers = sorted({c.fn.path for c in prog.all_calls(REMOVE)})
    want = sorted(["o::bad_delete_before_publish", "o::bad_delete_after_swallowed_publish", "o::good_delete_after_publish",
                   "<k::Inner as std::ops::Drop>::drop", "<k::BadInner as std::ops::Drop>::drop"])
    have = [c for c in callers if c in want]
    return [("W", "remove_file census", have == want)]


def _p2(prog):
    """must_pass towards a target whose own callee is in the must-set: the target does not count."""
    out = []
    ds = E.MustSet(prog, ["fsync_directory"], "fix-dirsync")
    for name, expect in (("p2::bad_switch_before_dirsync", False), ("p2::good_dirsync_then_switch", True)):
        f = prog.need(name)
        sw = f.calls_to("p2::switch_current")[0]
        syncs = {c.bb for c in f.calls_to(SYNC_ALL)}
        ok = E.must_pass(f, ds, from_bbs=list(syncs), to_bbs=[sw.bb], success_only=False)
        out.append(("P", name, ok == expect))
    return out


def _k2(prog):
    """licensing edges: cut the true edge of `total > limit`; the push must become unreachable."""
    out = []
    for name, expect in (("k2::good_licensed", True), ("k2::bad_or_licensed", False)):
        f = prog.need(name)
        edges = set()
        for a in range(f.n):
            t = f.blocks[a]["term"]
            if t["k"] != "switch":
                continue
            for o in E.switch_condition(f, a):
                if o.kind == "bin" and o.what == "Gt":
                    zero = [tg for (v, tg) in t.get("targets", []) if str(v) == "0"]
                    for s_ in f.succ(a):
                        if s_ not in zero:
                            edges.add((a, s_))
        push = [c for c in f.calls if c.sres.endswith("Vec::push")][0]
        ok = bool(edges) and push.bb not in f.reach([0], cut_edges=edges)
        out.append(("K", name, ok == expect))
    return out


def _pk(prog):
    return _p(prog) + _p2(prog)


def _kk(prog):
    return _k(prog) + _k2(prog)


KIND_TESTS = {"P": _pk, "O": _o, "K": _kk, "W": _w}


def register(kind, fn):
    KIND_TESTS[kind] = fn


def run(R, kinds=None):
    """Returns a list of blind spots (strings); empty when every requested kind fires as expected."""
    try:
        from rules import fixture_more  # noqa: F401  (registers further kinds)
    except ImportError:
        pass
    facts, meta = factsmod.extract_fixtures()
    prog = E.Prog(facts, meta)
    blind = []
    results = []
    for kind in sorted(KIND_TESTS):
        if kinds is not None and kind not in kinds:
            continue
        try:
            res = KIND_TESTS[kind](prog)
        except Exception as e:  # a crashing control is a blind engine
            res = [(kind, "exception %r" % (e,), False)]
        for (k, name, ok) in res:
            results.append({"kind": k, "fixture": name, "as_expected": ok})
            if not ok:
                blind.append("kind=%s fixture=%s" % (k, name))
    R.fixture_results = results
    return blind


def _e(prog):
    out = []
    for name, want in (("e::bad_swallow", 2), ("e::good_propagate", 0)):
        f = prog.need(name)
        n = 0
        for c in f.calls:
            if not c.dest or "p" in c.dest:
                continue
            ty = f.local_ty(c.dest["l"])
            if not ty.startswith("std::result::Result<") or "io::Error" not in ty:
                continue
            if c.path == E.TRY_BRANCH:
                continue
            fates = E.result_fate(f, c)
            if not (fates & {"propagated", "returned", "panics", "escapes"}):
                n += 1
        out.append(("E", name, n == want))
    return out


KIND_TESTS["E"] = _e


def _mv(prog):
    from rules.props.c20 import live_path_to_drop
    out = []
    owners = ["mv::FileWriter", "mv::Job"]
    for name, expect_bad in (("mv::Job::bad_finish", True), ("mv::Job::good_finish", False), ("mv::Job::good_cleanup", False)):
        f = prog.need(name)
        cb, ce = E.success_cuts(f)
        rets = set(f.return_blocks())
        bad = False
        for i, b in enumerate(f.blocks):
            t = b["term"]
            if b.get("cleanup") or t["k"] != "drop" or not E.owns_by_value(t["ty"], owners):
                continue
            if not (f.reach([i], cut_blocks=cb, cut_edges=ce) & rets):
                continue
            rm = {c.bb for c in f.calls_to(REMOVE)}
            if live_path_to_drop(f, i, t["place"], extra_cut=rm) is not None:
                bad = True
        out.append(("MV", name, bad == expect_bad))
    return out


KIND_TESTS["MV"] = _mv


def _l(prog):
    classes = {("rw", "l::Versions"): "VH", ("mutex", "std::vec::Vec<u64>"): "CS"}
    L = E.LockFacts(prog, classes)
    out = []
    for name, callee, expect in (("l::Tree::bad_insert", "l::work", False), ("l::Tree::good_insert_stmt", "l::work", True)):
        f = prog.need(name)
        c = f.calls_to(callee)[0]
        held = {x for (x, _m) in L.held_at(f, c.bb, must=True)}
        out.append(("L", name, ("VH" in held) == expect))
    # lock order edges
    def edges(name):
        f = prog.need(name)
        gl = L.guard_locals(f)
        es = set()
        for c in f.calls:
            for a in L.call_may_acquire(c):
                for h in L.holders_at(f, c.bb, must=False):
                    if gl[h][0] != a:
                        es.add((gl[h][0], a))
        return es
    # at most one acquisition of the history lock per path
    for name, expect in (("l::Tree::good_one_read", True), ("l::Tree::bad_two_reads", False)):
        f = prog.need(name)
        sites = [c for c in f.calls if "VH" in L.call_may_acquire(c)]
        twice = [(a, b) for a in sites for b in sites if a is not b and b.bb in f.reach_after(a.bb)]
        out.append(("L", name, (bool(sites) and not twice) == expect))
    out.append(("L", "l::Tree::good_order", edges("l::Tree::good_order") == {("CS", "VH")}))
    out.append(("L", "l::Tree::bad_order", edges("l::Tree::bad_order") == {("VH", "CS")}))
    return out


def _d(prog):
    out = []
    for name, expect_param in (("d::good_commit_on_current", True), ("d::bad_commit_on_stale", False)):
        f = prog.need(name)
        uc = f.calls_to("d::upgrade")[0]
        cbs = prog.callbacks(uc)
        g = prog.fns[cbs[0]] if cbs else None
        if g is None:
            out.append(("D", name, False))
            continue
        outs = E.origins(g, {"o": "move", "l": 0})
        from_param = any(o.kind == "param" and o.what == 2 for o in outs)
        from_upvar = any(o.kind == "upvar" for o in outs)
        out.append(("D", name, (from_param and not from_upvar) == expect_param))
    return out


KIND_TESTS["L"] = _l
KIND_TESTS["D"] = _d


def _f(prog):
    from rules.props.c09 import accumulated_fields
    out = []
    for name, complete in (("fga::good_merge", True), ("fga::bad_merge", False)):
        acc = accumulated_fields(prog.need(name), "fga::Entry")
        out.append(("F", name, (acc == {"len", "bytes", "on_disk_bytes"}) == complete and bool(acc)))
    return out


def _g(prog):
    vocab = ("len", "bytes", "on_disk_bytes")
    enc = E.codec_skeleton(prog.hir["fga::encode"]["body"], "w")
    out = []
    for name, agree in (("fga::good_decode", True), ("fga::bad_decode_swapped", False)):
        dec = E.codec_skeleton(prog.hir[name]["body"], "r")
        ok, _msg = E.compare_skeletons(enc, dec, vocab)
        out.append(("G", name, ok == agree and len(enc) == 3 and len(dec) == 3))
    return out


def _a(prog):
    from rules.report import Report
    from rules.props.c09 import rule_a
    R = Report("FIX", "quick")
    # the crate-wide census floor does not apply to the tiny fixtures crate: count violations by key
    import rules.props.c09 as c09
    r = None
    try:
        rule_a(prog, R, "A")
    except Exception:
        pass
    keys = [v["key"] for v in R.violations]
    bad = any("fga::bad_call_swapped" in k and "Entry::new" in k for k in keys)
    good = not any("fga::good_call" in k for k in keys)
    return [("A", "fga::bad_call_swapped", bad), ("A", "fga::good_call", good)]


def _h(prog):
    # structured guards: the unlink in k::Inner::drop is guarded, the one in BadInner::drop is not
    out = []
    for name, guarded in (("<k::Inner as std::ops::Drop>::drop", True), ("<k::BadInner as std::ops::Drop>::drop", False)):
        h = prog.hir[name]["body"]
        sites = E.hir_sites(h, lambda n: n.get("k") == "call" and n.get("p") == "std::fs::remove_file")
        ok = bool(sites) and all(any("is_deleted" in g for g in s.guard_texts()) for s in sites)
        out.append(("H", name, ok == guarded))
    return out


KIND_TESTS["F"] = _f
KIND_TESTS["G"] = _g
KIND_TESTS["A"] = _a
KIND_TESTS["H"] = _h
