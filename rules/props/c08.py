"""C08 — key-value separation is invisible to the user.

Decided: C08.a–f of DESIGN.md §3. Not decided: that no pointer ever dangles over all histories."""
import re

from rules.engine import (pat_str, origins, origin_callees, deep_origins, constituent_origins, short, hir_walk, hir_expr_str, hir_sites,
                          must_pass, codec_skeleton, compare_skeletons, success_cuts, witness_path, describe_path, MaySet)
from rules import anchors as A

EXPLANATION = (
    "Static decision of the key-value-separation clauses: (a) override census - every AbstractTree method that returns user "
    "values or sizes is overridden by BlobTree and resolves pointers (get / Guard::into_inner / into_inner_if reach "
    "resolve_value_handle; size_of / Guard::size decode the indirection; range / prefix wrap items in the blob Guard), and the "
    "provided trait methods BlobTree does not override are in the frozen table of value-agnostic defaults that reach values "
    "only through overridden methods; (b) pointers are resolved against the version that was read (= C02.d instances); "
    "(c) pointer and blob-frame codecs agree between writer, reader and scanner, BLOB_HEADER_LEN equals the header widths "
    "and write_raw's offset bookkeeping mirrors its writes one to one; (d) every path that writes an Indirection entry also "
    "registers the blob with the table writer, and a relocated pointer is built from the handle write_raw returned; "
    "(e) rewritten blob files leave the version in the same with_merge that installs their replacements; (f) a blob file is "
    "rewritten only if no table outside the compaction references it. Not decided: that no pointer dangles over all "
    "histories (depends on which tables share a blob file at run time).")
KINDS = ["G", "D", "P", "H"]
LEVEL_TEXT = ("Static census / def-use / must-pass / codec-agreement analysis of the blob tree layer: which API methods must "
              "resolve pointers and do, that pointer and frame encodings agree across writer, reader and scanner, that every "
              "pointer written is registered for GC accounting and that rewritten files leave with the version that "
              "re-points them. Equivalence of results with a standard tree over histories is not decided.")

TRAIT = "abstract_tree::AbstractTree"
RESOLVE = "blob_tree::resolve_value_handle"
REGISTER_BLOB = "table::multi_writer::MultiWriter::register_blob"

# provided methods BlobTree does not override, and why each is value-agnostic
DEFAULT_OK = {
    "version_memtable_size_sum": "sizes of memtables only",
    "flush_active_memtable": "rotate + flush through overridden methods",
    "flush": "streams internal entries into the overridden flush_to_tables / register_tables",
    "iter": "delegates to the overridden range",
    "tree_type": "constant per implementation",
    "first_key_value": "takes the first guard of the overridden range/iter",
    "last_key_value": "takes the last guard of the overridden range/iter",
    "len": "counts the guards of the overridden iter",
    "is_empty": "first_key_value().is_none()",
    "contains_key": "get(..).map(is_some) through the overridden get",
    "get_highest_seqno": "max of the two overridden seqno getters",
    "stale_blob_bytes": "0 for a standard tree; BlobTree overrides",
    "insert": "n/a",
}
RAW_ACCESS = ("abstract_tree::AbstractTree::get_internal_entry", "tree::Tree::get_internal_entry_from_version",
              "tree::Tree::create_internal_range", "tree::Tree::create_range", "tree::Tree::create_iter", "tree::Tree::create_prefix")


def run(prog, R, tier="quick", only_rule=None):
    c08a(prog, R)
    from rules.props import c02
    c02.c02d(prog, R, rid="C08.b")
    c08c(prog, R)
    c08d(prog, R)
    c08e(prog, R)
    c08f(prog, R)
    # a blob file that still holds live bytes is never judged dead (a pointer into it would dangle)
    from rules.props import c09
    c09.dead_rule_shared(prog, R, "C08.g")
    # a blob file named by the current version is never unlinked: marks come only after the version without it is published
    from rules.props import c05
    c05.c05c(prog, R, rid="C08.h")
    c09.c09j(prog, R, rid="C08.i")
    c08j(prog, R)
    # blob files written for filter replacements join the version in both flavours (shared with C17.d)
    from rules.props import c17
    c17.c17d(prog, R, rid="C08.k")
    c17.c17g(prog, R, rid="C08.l")


def c08a(prog, R):
    r = R.rule("C08.a", "every value-returning API method of the blob tree resolves pointers (override census)", "G")
    tr = prog.traits.get(TRAIT)
    if tr is None:
        r.anchor_missing("trait AbstractTree")
        return
    provided = {m["name"] for m in tr["methods"] if m["provided"]}
    impl = [im for im in prog.impls if im.get("trait") == TRAIT and im["self_ty"] == A.BLOBTREE]
    if not impl:
        r.anchor_missing("impl AbstractTree for BlobTree")
        return
    overridden = {m["name"] for m in impl[0]["methods"]}
    not_overridden = sorted(provided - overridden)
    for m in not_overridden:
        f = prog.fn("%s::%s" % (TRAIT, m))
        raw = []
        if f is not None:
            for g in prog.family(f):
                for c in g.calls:
                    if c.is_to(*RAW_ACCESS):
                        raw.append(short(c.sres))
        # value-agnostic = tabled, or built only from other trait methods (which dispatch to BlobTree's overrides):
        # no raw internal-entry access and no direct call into the standard tree's read functions
        direct = []
        if f is not None:
            for g in prog.family(f):
                for c in g.calls:
                    if c.sres and (c.sres.startswith("tree::Tree::") or c.sres.startswith("table::Table::") or c.sres.startswith("memtable::Memtable::get")):
                        direct.append(short(c.sres))
        ok = not raw and (m in DEFAULT_OK or not direct)
        r.check(ok, "AbstractTree::%s|default kept by BlobTree is value-agnostic" % m,
                "BlobTree inherits the provided method `%s` %s: a key-value separated tree would hand out raw pointers / "
                "pointer sizes instead of values" % (m, "which reads raw internal entries (%s)" % raw if raw else
                                                    "which calls the standard tree's readers directly (%s)" % direct), "",
                DEFAULT_OK.get(m, "built only from trait methods (dispatch to the overrides)"))
    # the overridden value-returning methods resolve
    must_resolve = {
        A.tm(A.BLOBTREE, "get"): RESOLVE,
        "<blob_tree::Guard as iter_guard::IterGuard>::into_inner": RESOLVE,
        "<blob_tree::Guard as iter_guard::IterGuard>::into_inner_if": RESOLVE,
    }
    for name, target in must_resolve.items():
        f = prog.need(name)
        ok = any(c.sres == target for g in prog.family(f) for c in g.calls)
        r.check(ok, "%s|reaches resolve_value_handle" % name, "a value-returning method of the blob tree no longer resolves pointers", f.where())
    for name in (A.tm(A.BLOBTREE, "size_of"), "<blob_tree::Guard as iter_guard::IterGuard>::size"):
        f = prog.need(name)
        h = prog.hir.get(f.path)
        dec = hir_sites(h["body"], lambda n: n.get("k") == "call" and (n.get("p") or "").endswith("BlobIndirection as coding::Decode>::decode_from")
                        or n.get("k") == "call" and (n.get("p") or "") == "coding::Decode::decode_from")
        ok = bool(dec) and all(any("is_indirection()" in g and not g.startswith("!") for g in s.guard_texts()) for s in dec)
        r.check(ok, "%s|decodes the indirection when value_type.is_indirection()" % name,
                "size of a separated value is no longer taken from the pointer", f.where())
    for m in ("range", "prefix"):
        f = prog.need(A.tm(A.BLOBTREE, m))
        ok = False
        for g in prog.family(f):
            for b in g.blocks:
                for st in b["stmts"]:
                    if st["k"] == "assign" and st["rv"]["k"] == "agg" and st["rv"].get("adt") == "iter_guard::IterGuardImpl" \
                            and st["rv"].get("variant") == "Blob":
                        ok = True
        r.check(ok, "%s|wraps items in the blob Guard" % f.path, "scan items of the blob tree are not wrapped in the resolving guard", f.where())
    # resolve_value_handle: indirection => Accessor::get with the pointer; otherwise the inline value
    f = prog.need(RESOLVE)
    h = prog.hir.get(RESOLVE)
    acc = hir_sites(h["body"], lambda n: n.get("k") == "mcall" and n.get("m") == "get" and "Accessor" in (n.get("p") or ""))
    ok = bool(acc) and all(any("item.key.value_type.is_indirection()" == g for g in s.guard_texts()) for s in acc)
    r.check(ok, "%s|Accessor::get under is_indirection()" % RESOLVE, "pointer resolution is not keyed on the Indirection value type", f.where())
    r.floor(12)


def c08c(prog, R):
    r = R.rule("C08.c", "pointer and blob-frame codecs agree (writer, reader, scanner)", "G")
    pairs = [
        ("<blob_tree::handle::BlobIndirection as coding::Encode>::encode_into", "<blob_tree::handle::BlobIndirection as coding::Decode>::decode_from", ("size", "vhandle")),
        ("<vlog::handle::ValueHandle as coding::Encode>::encode_into", "<vlog::handle::ValueHandle as coding::Decode>::decode_from", ("offset", "blob_file_id", "on_disk_size")),
    ]
    for e, d, vocab in pairs:
        he, hd = prog.hir.get(e), prog.hir.get(d)
        if not he or not hd:
            r.anchor_missing("codec pair %s" % e)
            continue
        ok, msg = compare_skeletons(codec_skeleton(he["body"], "w"), codec_skeleton(hd["body"], "r"), vocab)
        r.check(ok, "%s <-> decode_from" % short(e), msg, "", msg)
    # ValueHandle decode: struct literal fields from same-named locals
    hd = prog.hir.get(pairs[1][1])
    if hd:
        for n in hir_walk(hd["body"]):
            if n.get("k") == "struct" and n.get("p", "").endswith("ValueHandle"):
                from rules.engine import hir_tail_name
                bad = [(x["n"], hir_tail_name(x["e"])) for x in n["f"] if hir_tail_name(x["e"]) in pairs[1][2] and hir_tail_name(x["e"]) != x["n"]]
                r.check(not bad, "ValueHandle literal|fields from same-named values", "crossed fields %s" % bad, "")
    # blob frame: write_raw <-> Reader::get <-> Scanner::next
    w = prog.hir.get("vlog::blob_file::writer::Writer::write_raw")
    g = prog.hir.get("vlog::blob_file::reader::Reader::<'a>::get")
    s = prog.hir.get("<vlog::blob_file::scanner::Scanner as std::iter::Iterator>::next")
    if not (w and g and s):
        r.anchor_missing("blob frame writer/reader/scanner HIR")
        return
    W = [t for t in codec_skeleton(w["body"], "w") if t[0] not in ("if{", "}else{", "}", "loop{")]
    G = [t for t in codec_skeleton(g["body"], "r") if t[0] not in ("if{", "}else{", "}", "loop{")]
    S = [t for t in codec_skeleton(s["body"], "r") if t[0] not in ("if{", "}else{", "}", "loop{")]
    widths_w = [t[0] for t in W]
    want = ["bytes", "u128", "u64", "u16", "u32", "u32", "bytes", "bytes"]
    r.check(widths_w == want, "blob frame|write_raw writes magic,u128,u64,u16,u32,u32,key,value", "frame layout changed: %s" % widths_w, "", str(W))
    gw = [t[0] for t in G]
    r.check(gw[:6] == want[:6] and "bytes" in gw[6:], "blob frame|Reader::get reads the same header then the key", "reader layout %s" % gw, "", str(G))
    sw = [t[0] for t in S]
    r.check(sw == want, "blob frame|Scanner::next reads magic,u128,u64,u16,u32,u32,key,value", "scanner layout %s" % sw, "", str(S))
    # name hints of the two u32 lengths (real vs on-disk) agree between reader and scanner
    def hints(T):
        return [t[1] for t in T if t[0] == "u32"]
    hg, hs = hints(G), hints(S)
    norm = lambda x: (x or "").lstrip("_")
    r.check([norm(x) for x in hg] == ["real_val_len", "on_disk_val_len"] and [norm(x) for x in hs] == ["real_val_len", "on_disk_val_len"],
            "blob frame|u32 order = (real length, on-disk length) in reader and scanner", "length fields bound as %s / %s" % (hg, hs), "")
    wh = [t[1] for t in W if t[0] == "u32"]
    r.check(wh == ["uncompressed_len", "len"], "blob frame|writer puts (uncompressed_len, value.len())", "writer writes %s" % wh, "")
    # offset bookkeeping mirrors the writes: one `self.offset += ..` per write
    adds = [n for n in hir_walk(w["body"]) if n.get("k") == "assignop" and n.get("op") == "+=" and hir_expr_str(n["l"]) == "self.offset"]
    r.check(len(adds) == len(W), "write_raw|offset advanced once per written field (%d)" % len(W),
            "offset bookkeeping (%d additions) does not mirror the %d writes: the next pointer's offset would be wrong" % (len(adds), len(W)), "")
    sizes = [hir_expr_str(n["r"], 80) for n in adds]
    wf = prog.need("vlog::blob_file::writer::Writer::write_raw")
    so = [c.substs[0] for c in sorted(wf.calls, key=lambda c: (c.ln, c.bb)) if c.sres == "std::mem::size_of" and c.substs]
    exp_mid = ["u128", "u64", "u16", "u32", "u32"]
    ok = len(sizes) == 8 and "BLOB_HEADER_MAGIC.len()" in sizes[0] and "key.len()" in sizes[6] and "value.len()" in sizes[7] \
        and all("size_of" in x for x in sizes[1:6]) and so == exp_mid
    r.check(ok, "write_raw|offset additions match the field widths in order", "offset additions %s / size_of order %s" % (sizes, so), "",
            "size_of::<%s>" % ",".join(so))
    # the pointer names the file and the offset the blob was written to: both are read from the active writer before it
    # may be rotated away
    MW = "vlog::blob_file::multi_writer::MultiWriter::"
    skels = {}
    for m, inner in (("write", "vlog::blob_file::writer::Writer::write"), ("write_raw", "vlog::blob_file::writer::Writer::write_raw")):
        f = prog.need(MW + m)
        aggs = [(i, st) for i, b in enumerate(f.blocks) for st in b["stmts"] if st["k"] == "assign" and st["rv"]["k"] == "agg"
                and st["rv"].get("adt") == "vlog::handle::ValueHandle"]
        rot = f.calls_to(MW + "rotate")
        wr = f.calls_to(inner)
        if not aggs or not rot or not wr:
            r.anchor_missing("ValueHandle / rotate / inner write in %s%s" % (MW, m))
            continue
        for (bi, st) in aggs:
            flds = dict(zip(st["rv"]["fields"], st["rv"]["ops"]))
            o_off = [o for o in origins(f, flds["offset"]) if o.kind == "call"]
            o_id = [o for o in origins(f, flds["blob_file_id"]) if o.kind == "call"]
            o_sz = [o for o in origins(f, flds["on_disk_size"]) if o.kind == "call"]
            ok_off = bool(o_off) and all(o.extra.sres.endswith("writer::Writer::offset") and f.dominates(o.extra.bb, wr[0].bb) for o in o_off)
            ok_id = bool(o_id) and all(o.extra.sres.endswith("writer::Writer::blob_file_id") and
                                       not any(o.extra.bb in f.reach_after(rc.bb) for rc in rot) for o in o_id)
            ok_sz = bool(o_sz) and all(o.extra.bb == wr[0].bb for o in o_sz)
            r.check(ok_off, "%s%s|handle.offset = writer.offset() read before the write" % (MW, m),
                    "the pointer's offset is not the writer position before the blob was written", f.where(bi))
            r.check(ok_id, "%s%s|handle.blob_file_id read before a possible rotation" % (MW, m),
                    "the pointer's blob file id is read after the writer may have been rotated: the pointer names the next file "
                    "with an offset of the previous one", f.where(bi))
            r.check(ok_sz, "%s%s|handle.on_disk_size = result of the write" % (MW, m), "on_disk_size does not come from the write", f.where(bi))
    r.floor(15)


def c08d(prog, R, rid="C08.d"):
    r = R.rule(rid, "every pointer written is registered for GC accounting", "P,D")
    # BlobTree::flush_to_tables: after blob_writer.write every success path reaches register_blob before the next item
    f = prog.need(A.BLOB_FLUSH_TO_TABLES)
    bw = [c for c in f.calls if c.sres == "vlog::blob_file::multi_writer::MultiWriter::write"]
    reg = {c.bb for c in f.calls if c.sres == REGISTER_BLOB}
    nxt = [c.bb for c in f.calls if c.sres and c.sres.endswith("Iterator>::next") or c.sres == "std::iter::Iterator::next"]
    ok = bool(bw) and bool(reg) and all(must_pass(f, reg, from_bbs=[c.bb], to_bbs=nxt + f.return_blocks()) for c in bw)
    r.check(ok, "%s|blob written => register_blob before the next item" % f.path,
            "a value is separated into a blob file but the table does not record the link (GC would never account it)", f.where())
    # the registered indirection is the one that was encoded into the table
    for c in [c for c in f.calls if c.sres == REGISTER_BLOB]:
        os_ = origins(f, c.args[1])
        ok = any(o.kind == "agg" and o.what == "blob_tree::handle::BlobIndirection" for o in os_)
        r.check(ok, "%s|register_blob(the indirection just built)" % f.path, "a different indirection is registered", f.where(c.bb), str(os_))
    # Ingestion::write_indirection
    g = prog.need("tree::ingest::Ingestion::write_indirection")
    reg = {c.bb for c in g.calls if c.sres == REGISTER_BLOB}
    r.check(bool(reg) and must_pass(g, reg), "%s|always registers the blob" % g.path, "an ingested pointer is not registered", g.where())
    # RelocatingCompaction::write: after decoding an indirection every success path registers
    h = prog.need("<compaction::flavour::RelocatingCompaction as compaction::flavour::CompactionFlavour>::write")
    dec = [c for c in h.calls if c.sres and c.sres.endswith("BlobIndirection as coding::Decode>::decode_from")]
    reg = {c.bb for c in h.calls if c.sres == REGISTER_BLOB}
    ok = bool(dec) and bool(reg) and all(must_pass(h, reg, from_bbs=[c.bb]) for c in dec)
    r.check(ok, "%s|indirection seen => register_blob on every success path" % h.path,
            "a (relocated or passed-through) pointer is written without registering the blob link", h.where())
    # relocated pointer built from the handle write_raw returned; registered indirection = the new one on that branch
    ok = False
    for b in h.blocks:
        for st in b["stmts"]:
            if st["k"] == "assign" and st["rv"]["k"] == "agg" and st["rv"].get("adt") == "blob_tree::handle::BlobIndirection":
                idx = st["rv"]["fields"].index("vhandle")
                ok = any(o.kind == "call" and o.extra.sres.endswith("MultiWriter::write_raw") for o in origins(h, st["rv"]["ops"][idx]))
    r.check(ok, "%s|relocated pointer.vhandle = handle returned by blob_writer.write_raw" % h.path,
            "the relocated pointer is not built from the location the blob was actually written to", h.where())
    # StandardCompaction::write (structural)
    s = prog.hir.get("<compaction::flavour::StandardCompaction as compaction::flavour::CompactionFlavour>::write")
    if s:
        lets = {n["pat"]["n"]: n["init"] for n in hir_walk(s["body"]) if n.get("k") == "let" and n["pat"].get("k") == "bind" and "init" in n}
        ind = lets.get("indirection")
        cond_ok = ind is not None and ind.get("k") == "if" and hir_expr_str(ind["c"]) == "item.key.value_type.is_indirection()"
        regs = hir_sites(s["body"], lambda n: n.get("k") == "mcall" and n.get("m") == "register_blob")
        g_ok = bool(regs) and all(len(x.guard_texts()) == 1 and "Some(indirection) = indirection" in x.guard_texts()[0] for x in regs)
        r.check(cond_ok and g_ok, "StandardCompaction::write|indirection => register_blob", "pass-through of pointers no longer registers the blob link", "")
    else:
        r.anchor_missing("StandardCompaction::write HIR")
    # the link is credited to the table that holds the pointer: MultiWriter::write rotates to a new table *before* it
    # writes the first key past the target size, so the pointer has to be written first and registered afterwards;
    # registering first credits the first pointer of every rotated table to the previous table
    TW = "table::multi_writer::MultiWriter::write"
    n = 0
    for p, g_ in sorted(prog.fns.items()):
        regs = [c for c in g_.calls if c.sres == REGISTER_BLOB]
        if not regs:
            continue
        writes = {c.bb for c in g_.calls if c.sres == TW}
        nxt = {c.bb for c in g_.calls if (c.sres or "").endswith("Iterator>::next") or c.sres == "std::iter::Iterator::next"}
        for c in regs:
            n += 1
            after = g_.reach_after(c.bb, stop_at=nxt)
            late = sorted(after & writes)
            r.check(not late, "%s|the pointer is written before its blob link is registered" % p,
                    "register_blob runs before the table write of the same item: when that write rotates the table writer the "
                    "link is credited to the previous table (its garbage is over-counted, the new table's under-counted)",
                    g_.where(c.bb))
    if n < 4:
        r.anchor_missing("register_blob call sites (found %d, confirmed 4)" % n)
    r.floor(10)


def c08e(prog, R):
    r = R.rule("C08.e", "rewritten blob files leave with the version that re-points them", "D")
    f = prog.need(A.RELOC_FINISH)
    hit_new = hit_drop = False
    for g in prog.family(f):
        for c in g.calls_to("version::Version::with_merge"):
            for i, a in enumerate(c.args):
                ty = c.arg_tys[i]
                srcs = constituent_origins(prog, g, a)
                names = {o.extra.sres for (_gg, o) in srcs if o.kind == "call"}
                paths = {p for (_gg, o) in srcs for p in o.path}
                if ty.startswith("std::vec::Vec<vlog::blob_file::BlobFile"):
                    if A.BLOB_MULTI_FINISH in names:
                        hit_new = True
                if "HashSet<u64" in ty:
                    # ids collected from blob_files_to_drop which starts as self.rewriting_blob_files
                    deep = set()
                    for (gg, o) in srcs:
                        if o.kind == "call":
                            deep |= origin_callees(gg, o.extra.args[0]) if o.extra.args else set()
                        deep |= set(o.path)
                    hit_drop = True if ("rewriting_blob_files" in str(srcs) or "rewriting_blob_files" in str(deep)) else hit_drop
    h = prog.hir.get(f.path)
    txt = hir_expr_str(h["body"], 200000) if h else ""
    lets = {n["pat"]["n"]: hir_expr_str(n["init"], 200) for n in hir_walk(h["body"]) if n.get("k") == "let" and n["pat"].get("k") == "bind" and "init" in n} if h else {}
    hit_drop = hit_drop or lets.get("blob_files_to_drop") == "self.rewriting_blob_files"
    r.check(hit_new, "%s|with_merge(new_blob_files) includes blob_writer.finish()" % f.path,
            "the relocated blob files are not installed by the version that re-points the tables", f.where())
    r.check(hit_drop and "blob_files_to_drop" in lets, "%s|with_merge(blob_files_to_drop) starts from the rewritten files" % f.path,
            "the rewritten blob files are not removed by the version that re-points the tables", f.where(), str(lets.get("blob_files_to_drop")))
    with_merge_guards(prog, r)
    r.floor(6)


def with_merge_guards(prog, r):
    """In Version::with_merge every loop over an input collection sits under a guard that is true whenever that
    collection is non-empty (the copy-on-write fast path must not swallow inputs)."""
    name = "version::Version::with_merge"
    h = prog.hir.get(name)
    if h is None:
        r.anchor_missing(name)
        return
    fors = hir_sites(h["body"], lambda n: n.get("k") == "for")
    seen = 0
    defs = {n["pat"]["n"]: hir_expr_str(n["init"], 300) for n in hir_walk(h["body"]) if n.get("k") == "let" and n["pat"].get("k") == "bind" and "init" in n}

    def resolve(t):
        # a guard that is a plain boolean variable stands for its definition
        neg = t.startswith("!")
        v = t[1:] if neg else t
        if v in defs and not neg:
            return "%s := %s" % (v, defs[v])
        return t
    for s in fors:
        it = hir_expr_str(s.node["iter"])
        for coll in ("new_blob_files", "blob_files_to_drop"):
            if it in (coll, "&" + coll, coll + ".iter()"):
                seen += 1
                g = [resolve(t) for t in s.guard_texts() if not t.startswith("for:")]
                ok = (not g) or any(("!%s.is_empty()" % coll) in t for t in g)
                r.check(ok, "%s|loop over %s runs whenever it is non-empty" % (name, coll),
                        "the loop that applies `%s` is guarded by `%s`, which can be false although the collection is non-empty: "
                        "its blob files would silently not enter / leave the version" % (coll, " & ".join(g)), "", " & ".join(g))
    if seen < 2:
        r.anchor_missing("loops over new_blob_files / blob_files_to_drop in with_merge (found %d)" % seen)
    # the diff is merged whenever it is present
    mi = hir_sites(h["body"], lambda n: n.get("k") == "mcall" and n.get("m") == "merge_into")
    for s in mi:
        g = [resolve(t) for t in s.guard_texts()]
        ok = any(("has_diff" in t or "diff.is_some()" in t) and not t.startswith("!") for t in g) or not g
        r.check(ok, "%s|diff merged whenever present" % name, "merge_into is guarded by %s" % g, "", " & ".join(g))
    lets = {n["pat"]["n"]: hir_expr_str(n["init"]) for n in hir_walk(h["body"]) if n.get("k") == "let" and n["pat"].get("k") == "bind" and "init" in n}
    if "has_diff" in lets:
        r.check(lets.get("has_diff") == "diff.is_some()", "%s|has_diff := diff.is_some()" % name, "has_diff is %s" % lets.get("has_diff"), "")


def c08f(prog, R, rid="C08.f"):
    r = R.rule(rid, "a blob file is rewritten only if no table outside the compaction points into it", "P")
    name = "compaction::worker::pick_blob_files_to_rewrite"
    f = prog.need(name)
    h = prog.hir.get(name)
    fors = [n for n in hir_walk(h["body"]) if n.get("k") == "for" and hir_expr_str(n["iter"]) == "current_version.iter_tables()"]
    r.check(len(fors) == 1, "%s|scans every table of the current version" % name, "the cross-reference scan over all tables is gone", f.where())
    if fors:
        body = fors[0]["b"]
        conts = hir_sites(body, lambda n: n.get("k") == "continue")
        ok = len(conts) == 1 and conts[0].guard_texts()[-1:] == ["picked_tables.contains(&table.id())"]
        r.check(ok, "%s|only picked tables are skipped" % name, "tables other than the picked ones are skipped by the cross-reference scan", "",
                str([c.guard_texts() for c in conts]))
        ret = [n for n in hir_walk(body) if n.get("k") == "mcall" and n.get("m") == "retain" and hir_expr_str(n["r"]) == "linked_blob_files"]
        r.check(bool(ret), "%s|referenced candidates are retained away" % name, "candidates referenced by other tables are no longer removed", "")
        # every success path passes the loop: the iter_tables call dominates the success return
        it = [c for c in f.calls if c.sres == "version::Version::iter_tables"]
        ok = bool(it) and must_pass(f, {c.bb for c in it})
        r.check(ok, "%s|every success path runs the scan" % name, "a success path returns candidates without the cross-reference scan", f.where())
    # returned list derives from the pruned linked_blob_files
    rets = [hir_expr_str(n["e"], 200) for n in hir_walk(h["body"]) if n.get("k") == "ret" and n.get("e")]
    tail = hir_expr_str(h["body"]["b"].get("e"), 200) if h["body"].get("k") == "blockx" and h["body"]["b"].get("e") else ""
    r.check("linked_blob_files.into_iter()" in tail, "%s|returns the pruned list" % name, "the returned list is not the pruned candidate list", "", tail)
    r.floor(5)


def _unwrap(n):
    while isinstance(n, dict) and n.get("k") == "blockx" and not n["b"].get("s") and "e" in n["b"]:
        n = n["b"]["e"]
    return n


def _disjuncts(n):
    n = _unwrap(n)
    if isinstance(n, dict) and n.get("k") == "bin" and n.get("op") == "||":
        return _disjuncts(n["l"]) + _disjuncts(n["r"])
    return [n]


def _conjuncts(n):
    n = _unwrap(n)
    if isinstance(n, dict) and n.get("k") == "bin" and n.get("op") == "&&":
        return _conjuncts(n["l"]) + _conjuncts(n["r"])
    return [n]


def c08j(prog, R, rid="C08.j"):
    """Relocation matches each pointer with its blob while walking a merged scan of the blob files being rewritten.  What the
    walk may throw away is only what no later pointer can reference: blobs of *smaller keys*, and earlier blobs of the same
    key in the same file.  The order of one key's blobs in the scan (by the seqno stored with the blob) need not be the order of
    its pointers (bulk ingestion stamps its seqno afterwards), so a blob of the current key in another file may belong to a
    pointer that is still to come (finding F12)."""
    r = R.rule(rid, "relocation never discards a blob that a later pointer of the same key may reference", "B,K")
    h = prog.hir.get("compaction::flavour::drain_blobs")
    if h is None:
        r.anchor_missing("compaction::flavour::drain_blobs")
        return
    preds = []
    for n in hir_walk(h["body"]):
        if n.get("k") == "closure":
            for m in hir_walk(n["b"]):
                if m.get("k") == "match":
                    for a in m["arms"]:
                        if "Ok(" in pat_str(a["pat"]):
                            preds.append(a["b"])
    if len(preds) != 1:
        r.anchor_missing("the drain predicate (Ok arm of the next_if closure) in drain_blobs (found %d)" % len(preds))
        return
    bad = []
    shapes = []
    for d in _disjuncts(preds[0]):
        cs = [hir_expr_str(c, 200) for c in _conjuncts(d)]
        shapes.append(" && ".join(cs))
        smaller_key = any(c in ("(entry.key < key)", "(key > entry.key)") for c in cs)
        same_key = any(c in ("(entry.key == key)", "(key == entry.key)") for c in cs)
        same_file = any("blob_file_id ==" in c or "== *blob_file_id" in c for c in cs)
        earlier = any(c.startswith("(entry.offset < ") for c in cs)
        if not (smaller_key or (same_key and same_file and earlier)):
            bad.append(" && ".join(cs))
    r.check(not bad, "compaction::flavour::drain_blobs|drains only smaller keys, or earlier blobs of the same key in the same file",
            "the relocation scan throws away blobs under the condition `%s`: a blob of the current key that sits in another blob file "
            "(or any blob of a later key) is lost although a pointer still to come references it; the compaction then panics "
            "`vptr was not matched with blob`" % " || ".join(bad), "", " || ".join(shapes))
    # the blob handed to the writer is identified by (file, offset), and passed-over blobs of the key are kept
    f = prog.fn("compaction::flavour::RelocatingCompaction::take_blob")
    wr = prog.need("<compaction::flavour::RelocatingCompaction as compaction::flavour::CompactionFlavour>::write")
    uses = [c for c in wr.calls if c.sres.endswith("RelocatingCompaction::take_blob")]
    keeps = bool(f) and any(c.sres.endswith("Vec::push") for c in f.calls) and any(c.sres.endswith("Iterator>::position") or c.sres.endswith("Iterator::position") for c in f.calls)
    r.check(bool(uses) and keeps, "RelocatingCompaction::write|passed-over blobs of the current key are parked and searched first",
            "relocation does not keep the blobs of the current key it passes over", wr.where())
    r.floor(2)
