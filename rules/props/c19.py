"""C19 — FIFO compaction drops only the oldest tables and leaves the rest readable.

Decided: the structural clauses C19.a–g below (necessary conditions). Not decided: which tables a given (limit, TTL,
history) selects — that is arithmetic over run-time sizes, blob bytes and the wall clock."""
from rules.engine import (origins, origin_callees, deep_origins, short, hir_walk, hir_expr_str, hir_sites, pat_str,
                          control_deps_transitive, switch_condition)
import re

from rules import anchors as A

EXPLANATION = (
    "Static decision of the structural clauses of the FIFO property, not of the selection arithmetic: (a) in "
    "fifo::Strategy::choose every insertion into the returned drop set is control-dependent either on the expiry test of "
    "the examined table or on `size_after_ttl > self.limit` together with the not-yet-covered edge of the overshoot test, "
    "where the compared size derives from Level::size(L0) + BlobFileList::on_disk_size minus the expired bytes and from "
    "nothing else, so nothing is dropped within limit and TTL; (b) expired := created_at <= now - ttl, the TTL is disabled "
    "for None and 0, and cutoff and created_at use the same clock unit as the table writer (Duration::as_nanos, seconds "
    "scaled by 10^9); (c) the size-based candidates are iterated after sort_by_key(created_at) ascending, the loop "
    "inserts on every iteration that does not leave it (an oldest-first prefix, no skipping), its only early exit is the "
    "covered test; (d) the value returned in Choice::Drop is that set, only when it is non-empty, and every inserted id is "
    "the id of the table under examination; (e) Choice::Drop(ids) is executed by drop_tables(ids), which hands exactly "
    "that slice to Version::with_dropped, marks only tables looked up by those ids, and with_dropped extracts a table iff "
    "ids.contains(its id); (f) the drop is published before any file is marked deleted (C05.c) and (g) persisted before it "
    "is visible (C02.a), so retained tables stay readable now and after reopen.")
KINDS = ["K", "D", "O", "P"]
LEVEL_TEXT = ("Static control-dependence, def-use and ordering analysis of fifo::Strategy::choose and of the drop path "
              "(do_compaction, drop_tables, Version::with_dropped): what licenses an insertion into the drop set, in which "
              "order candidates are taken, and that exactly the chosen ids are removed through publish-then-delete. The "
              "selection arithmetic over run-time sizes, blob bytes and the clock is not decided.")

CHOOSE = "<compaction::fifo::Strategy as compaction::CompactionStrategy>::choose"
WITH_DROPPED = "version::Version::with_dropped"


def run(prog, R, tier="quick", only_rule=None):
    c19abcd(prog, R)
    c19e(prog, R)
    from rules.props import c02, c05
    c05.c05c(prog, R, rid="C19.f")
    c02.c02a(prog, R, rid="C19.g")


def _true_edge(f, a, s):
    """Is (a -> s) the non-zero (true) edge of a boolean switch at a?"""
    t = f.blocks[a]["term"]
    zero = [tg for (v, tg) in t.get("targets", []) if str(v) == "0"]
    return bool(zero) and s not in zero


def _closure_of(prog, call):
    cbs = [prog.fns[c] for c in prog.callbacks(call) if c in prog.fns]
    return cbs[0] if cbs else None


def _cmp_in(g):
    """Comparison rvalues of a (closure) body: list of (op, a-origins, b-origins)."""
    out = []
    for b in g.blocks:
        for st in b["stmts"]:
            if st["k"] == "assign" and st["rv"]["k"] == "bin" and st["rv"]["op"] in ("Le", "Lt", "Ge", "Gt", "Eq", "Ne"):
                out.append((st["rv"]["op"], origins(g, st["rv"]["a"], extra_pass=()), origins(g, st["rv"]["b"], extra_pass=())))
    return out


def _callees_deep(f, op, depth=8):
    """origin_callees that also descends into the operands of aggregates (Some(x), tuples)."""
    out = set(origin_callees(f, op, depth=depth))
    if depth <= 0:
        return out
    for o in origins(f, op):
        if o.kind == "agg" and isinstance(o.extra, dict) and not o.extra.get("closure"):
            for sub in o.extra.get("ops", []):
                out |= _callees_deep(f, sub, depth - 1)
    return out


def _has_field(os_, name):
    return any(name in o.path for o in os_)


def c19abcd(prog, R):
    ra = R.rule("C19.a", "every insertion into the drop set is licensed by expiry or by the size overshoot", "K,D")
    rb = R.rule("C19.b", "expired := created_at <= now - ttl; TTL off for None/0; same clock unit as the table writer", "B,G")
    rc = R.rule("C19.c", "size-based drops take an oldest-first prefix", "O,P")
    rd = R.rule("C19.d", "Choice::Drop carries exactly the set that was built", "D")
    f = prog.fn(CHOOSE)
    h = prog.hir.get(CHOOSE)
    if f is None or h is None:
        ra.anchor_missing(CHOOSE)
        return
    inserts = [c for c in f.calls if c.sres.endswith("HashSet::insert")]
    # the set that is returned
    ret_sets = []
    for i, b in enumerate(f.blocks):
        for st in b["stmts"]:
            if st["k"] == "assign" and st["rv"]["k"] == "agg" and st["rv"].get("variant") == "Drop" and st["rv"]["ops"]:
                ret_sets.append((i, st["rv"]["ops"][0]))
    if not inserts or not ret_sets:
        ra.anchor_missing("HashSet::insert / Choice::Drop in fifo choose")
        return

    def root_locals(op):
        return {(o.kind, o.what, o.bb) for o in origins(f, op)}
    set_roots = set()
    for (_, op) in ret_sets:
        set_roots |= root_locals(op)
    ttl_sites, size_sites = [], []
    # licensing edges of the whole body
    ttl_edges, size_edges, cov_edges = {}, {}, {}
    for a in range(f.n):
        if f.is_cleanup(a) or f.blocks[a]["term"]["k"] != "switch":
            continue
        for o in switch_condition(f, a):
            for s_ in f.succ(a):
                te = _true_edge(f, a, s_)
                if o.kind == "call" and o.extra.sres.endswith("Option::is_some_and") and te:
                    ttl_edges[(a, s_)] = o.extra
                if o.kind == "bin" and o.what in ("Gt", "Ge") and isinstance(o.extra, dict):
                    if te and _has_field(origins(f, o.extra["b"]), "limit"):
                        size_edges[(a, s_)] = o.extra
                    elif not te and any(x.kind == "bin" and str(x.what).startswith("Sub") and _has_field(origins(f, x.extra["b"]), "limit")
                                        for x in origins(f, o.extra["b"])):
                        cov_edges[(a, s_)] = o.extra
    for c in inserts:
        if not (root_locals(c.args[0]) & set_roots):
            continue   # some other set
        key = "%s|insert #%d" % (CHOOSE, inserts.index(c))
        by_ttl = c.bb not in f.reach([0], cut_edges=set(ttl_edges))
        by_size = c.bb not in f.reach([0], cut_edges=set(size_edges))
        by_any = c.bb not in f.reach([0], cut_edges=set(ttl_edges) | set(size_edges))
        if by_ttl:
            e = [k for k in ttl_edges if f.dominates(k[0], c.bb)]
            ttl_sites.append((c, ttl_edges[e[0]] if e else list(ttl_edges.values())[0]))
            ra.ok(key + " only behind the expiry test", f.where(c.bb))
        elif by_size:
            e = [k for k in size_edges if f.dominates(k[0], c.bb)] or list(size_edges)
            ce = [k for k in cov_edges if c.bb not in f.reach([0], cut_edges={k})]
            size_sites.append((c, (e[0][0], size_edges[e[0]]), (ce[0][0], cov_edges[ce[0]]) if ce else None))
            ra.ok(key + " only behind size_after_ttl > limit", f.where(c.bb))
        else:
            ra.bad(key + " is licensed", "a table id can be inserted into the FIFO drop set on a path where the table is not expired "
                   "and the tree does not exceed its size limit", f.where(c.bb), "expiry|size edges cut: reachable=%s" % (not by_any))
        # the id is the id of the table under examination (loop item)
        ids = origins(f, c.args[1])
        okid = any(o.kind == "call" and o.extra.sres == "table::Table::id" for o in ids)
        rd.check(okid, key + " inserts table.id()", "the inserted value is not the examined table's id", f.where(c.bb), str(ids))
    ra.check(len(ttl_sites) >= 1 and len(size_sites) >= 1, "%s|one TTL site and one size site" % CHOOSE,
             "expected an expiry-licensed and a size-licensed insertion (found %d / %d)" % (len(ttl_sites), len(size_sites)), f.where())
    # --- size licence operands
    for (c, (a, rv), covered) in size_sites:
        lhs = origin_callees(f, rv["a"], depth=8)
        rhs = origins(f, rv["b"])
        need = {"version::Level::size", "version::blob_file_list::BlobFileList::on_disk_size"}
        allowed = need | {"core::num::saturating_sub", "table::Table::file_size", "table::Table::referenced_blob_bytes",
                          "std::result::Result::unwrap_or_default", "version::Version::l0"}
        extra = {x for x in lhs if x not in allowed and not x.endswith("::deref") and "Deref" not in x}
        ra.check("version::Level::size" in lhs and not extra, "%s|compared size = L0 size + blob bytes - expired bytes" % CHOOSE,
                 "the size compared with the limit derives from %s" % sorted(short(x) for x in (extra or lhs)), f.where(a), str(sorted(short(x) for x in lhs)))
        ra.check(_has_field(rhs, "limit") and any(o.kind == "param" and o.what == 1 for o in rhs), "%s|... > self.limit" % CHOOSE,
                 "the size is not compared with self.limit", f.where(a), str(rhs))
        # the L0 level whose size is taken is version.l0()
        ok_cov = False
        if covered:
            cb = origins(f, covered[1]["b"])
            # overshoot = size_after_ttl - limit
            ok_cov = any(o.kind == "bin" and str(o.what).startswith("Sub") and _has_field(origins(f, o.extra["b"]), "limit") for o in cb)
        rc.check(ok_cov, "%s|size insert on the not-covered edge of `collected >= size - limit`" % CHOOSE,
                 "size-based drops are not bounded by the overshoot: more tables than necessary can be dropped", f.where(c.bb))
        # at size == limit nothing may be dropped: either the licence is strict, or the covered test stops at overshoot 0
        strict = rv["op"] == "Gt" or (covered is not None and covered[1]["op"] == "Ge")
        ra.check(strict, "%s|nothing is dropped at size == limit" % CHOOSE,
                 "with `size >= limit` and `collected > overshoot` a tree exactly at its limit loses its oldest table", f.where(a),
                 "%s / %s" % (rv["op"], covered[1]["op"] if covered else None))
    # --- (b) expiry test
    for (c, call) in ttl_sites:
        g = _closure_of(prog, call)
        ok = False
        detail = ""
        if g is not None:
            for (op, ao, bo) in _cmp_in(g):
                a_created, b_created = _has_field(ao, "created_at"), _has_field(bo, "created_at")
                a_cut = any(o.kind == "param" and o.what == 2 for o in ao)
                b_cut = any(o.kind == "param" and o.what == 2 for o in bo)
                detail = "%s created_at:%s/%s cutoff:%s/%s" % (op, a_created, b_created, a_cut, b_cut)
                if (op in ("Le", "Lt") and a_created and b_cut) or (op in ("Ge", "Gt") and a_cut and b_created):
                    ok = True
        rb.check(ok, "%s|expired := created_at <= cutoff" % CHOOSE, "the expiry test is not `created_at <= cutoff`: tables "
                 "younger than the TTL count as expired", f.where(call.bb), detail)
        cut = _callees_deep(f, call.args[0])
        rb.check({"time::unix_timestamp", "core::num::saturating_sub"} <= cut, "%s|cutoff = unix_timestamp() saturating_sub ttl" % CHOOSE,
                 "the TTL cutoff is not now - ttl", f.where(call.bb), str(sorted(short(x) for x in cut)))
    # HIR: the match that builds the cutoff (None / 0 disable), unit agreement
    ms = [n for n in hir_walk(h["body"]) if n.get("k") == "match" and hir_expr_str(n["e"]) == "self.ttl_seconds"]
    if not ms:
        rb.anchor_missing("match self.ttl_seconds")
    else:
        arms = [(pat_str(a["pat"]), hir_expr_str(a["g"]) if a.get("g") else None, hir_expr_str(a["b"], 300)) for a in ms[0]["arms"]]
        some = [x for x in arms if x[0].endswith("Some(s)")]
        rest = [x for x in arms if not x[0].endswith("Some(s)")]
        rb.check(bool(some) and some[0][1] == "(s > 0)" and all(x[2].endswith("Option::None") for x in rest),
                 "%s|TTL disabled for None and for 0" % CHOOSE, "a zero / absent TTL no longer disables expiry", "", str(arms))
        body = some[0][2] if some else ""
        rb.check(".as_nanos()" in body and "* 1000000000)" in body and "saturating_sub" in body,
                 "%s|cutoff in nanoseconds: as_nanos() - s * 10^9" % CHOOSE,
                 "cutoff unit and TTL scaling disagree (expected as_nanos and seconds * 10^9)", "", body)
    # the writer stamps created_at with the same unit
    wf = [n for n in prog.hir if n.startswith("table::writer::Writer") and n.endswith("::finish")]
    stamped = False
    for n in wf:
        for x in hir_walk(prog.hir[n]["body"]):
            if x.get("k") in ("call", "mcall") and "created_at" in hir_expr_str(x, 200) and "time::unix_timestamp().as_nanos()" in hir_expr_str(x, 200):
                stamped = True
    rb.check(stamped, "table::writer::Writer::finish|created_at = unix_timestamp().as_nanos()",
             "the table writer stamps created_at in another unit than FIFO compares it in", "")
    # --- (c) oldest first
    sorts = [c for c in f.calls if c.sres.endswith(("slice::sort_by_key", "slice::sort_unstable_by_key", "slice::sort_by_cached_key"))]
    for (c, lic, covered) in size_sites:
        # the loop this insert sits in: the Iterator::next whose Some edge it depends on
        nexts = []
        for (a, s) in control_deps_transitive(f, c.bb):
            for o in switch_condition(f, a):
                if o.kind == "discr":
                    for oo in origins(f, {"o": "copy", "l": o.extra["place"]["l"]}) if isinstance(o.extra, dict) and "place" in o.extra else []:
                        if oo.kind == "call" and oo.extra.sres.endswith("Iterator>::next"):
                            nexts.append((oo.extra, a, s))
        nexts = [x for x in nexts if f.dominates(lic[0], x[0].bb)]
        if not nexts:
            rc.anchor_missing("loop of the size-based insertion")
            continue
        nx, sw, some_bb = nexts[0]
        # iterated collection = the sorted one, sort dominates the loop
        # order-preserving adaptors only (a `.rev()` in the chain must not be seen through)
        ORDER_KEEPING = (re.compile(r"(slice|Vec|Iterator)::(iter|copied|cloned|by_ref|as_slice)$"),)
        it_roots = {(o.kind, o.what, o.bb) for o in origins(f, nx.args[0], extra_pass=ORDER_KEEPING)}
        ok = False
        keyok = False
        for sc in sorts:
            s_roots = {(o.kind, o.what, o.bb) for o in origins(f, sc.args[0], extra_pass=())}
            if s_roots & it_roots and f.dominates(sc.bb, nx.bb):
                ok = True
                g = _closure_of(prog, sc)
                if g is not None:
                    rets = []
                    for b in g.blocks:
                        for st in b["stmts"]:
                            if st["k"] == "assign" and st["to"]["l"] == 0:
                                rets.append(st["rv"])
                    keyok = bool(rets) and all(rv["k"] == "use" and _has_field(origins(g, rv["op"]), "created_at") for rv in rets)
        rc.check(ok, "%s|sort_by_key dominates the size-based loop over the same vector" % CHOOSE,
                 "the size-based candidates are not sorted before they are taken", f.where(nx.bb))
        rc.check(keyok, "%s|sort key = metadata.created_at (ascending)" % CHOOSE,
                 "the size-based candidates are not ordered oldest-first by creation time", f.where(nx.bb))
        # prefix: from the Some edge, the loop head is not reachable without passing the insert
        reach = f.reach([some_bb], cut_blocks=[c.bb])
        rc.check(nx.bb not in reach, "%s|every iteration that stays in the loop inserts (no skipping)" % CHOOSE,
                 "the size-based loop can skip a table and drop a newer one", f.where(c.bb))
    # --- (d) returned set
    for (bb, op) in ret_sets:
        roots = origins(f, op)
        rd.check(any(o.kind == "call" and "Default" in o.extra.sres for o in roots), "%s|the set starts empty" % CHOOSE,
                 "the drop set does not start empty", f.where(bb), str(roots))
    # tables examined come from L0 of the version that was passed in
    its = [c for c in f.calls if c.sres == "version::Version::l0"]
    rd.check(bool(its) and all(any(o.kind == "param" and o.what == 2 for o in origins(f, c.args[0])) for c in its),
             "%s|tables examined are those of version.l0()" % CHOOSE, "FIFO examines tables of another version", f.where())
    ra.floor(6)
    rb.floor(5)
    rc.floor(4)
    rd.floor(4)


def c19e(prog, R, rid="C19.e"):
    r = R.rule(rid, "exactly the chosen ids are removed", "D,G")
    dc = prog.need(A.DO_COMPACTION)
    h = prog.hir.get(dc.path)
    sites = hir_sites(h["body"], lambda n: n.get("k") == "call" and n.get("p") == A.DROP_TABLES)
    ok = bool(sites)
    for s in sites:
        pats = [g for g in s.guard_texts() if "compaction::Choice::Drop(" in g]
        ok = ok and bool(pats)
        if pats:
            var = pats[-1].split("compaction::Choice::Drop(")[1].split(")")[0]
            arg = hir_expr_str(s.node["a"][-1], 200)
            ok = ok and var in arg and ".filter(" not in arg and ".take(" not in arg and ".skip(" not in arg
    r.check(ok, "%s|Choice::Drop(ids) => drop_tables(.., ids)" % dc.path, "the ids handed to drop_tables are not the chosen set", dc.where())
    dt = prog.need(A.DROP_TABLES)
    # the slice parameter (3) reaches with_dropped inside the upgrade closure
    ups = dt.calls_to(A.UPGRADE)
    okw = False
    for u in ups:
        for cb in prog.callbacks(u):
            cf = prog.fns.get(cb)
            if cf is None:
                continue
            for c in cf.calls_to(WITH_DROPPED):
                for (g, o) in deep_origins(prog, cf, c.args[1]):
                    if g.path == dt.path and o.kind == "param" and o.what == 3 and not o.path:
                        okw = True
    r.check(okw, "%s|with_dropped(ids_to_drop) gets the parameter unchanged" % dt.path,
            "drop_tables removes another id set from the version than it was given", dt.where())
    # marked tables are looked up by those ids
    from rules.engine import MaySet
    ms = MaySet(prog, ["table::Table::mark_as_deleted"], "marks a table deleted")
    marks = [c for c in dt.calls if ms.call_in(c)]   # the marking itself, or a helper that does it
    okm = bool(marks)
    for c in marks:
        names = set()
        for a_ in c.args:
            names |= origin_callees(dt, a_, depth=8)
        okm = okm and any(x.endswith("Iterator::collect") for x in names)
    hh = prog.hir.get(dt.path)
    lk = [hir_expr_str(n["init"], 400) for n in hir_walk(hh["body"]) if n.get("k") == "let" and "init" in n and "else" in n]
    okm = okm and any(x.startswith("ids_to_drop.iter().map(") and "get_table(id)" in x for x in lk)
    r.check(okm, "%s|marked tables = latest_version.get_table(id) for id in ids_to_drop" % dt.path,
            "the tables marked deleted are not the ones looked up by the dropped ids", dt.where(), str(lk)[:200])
    # with_dropped: extract iff ids.contains(id)
    wd = prog.need(WITH_DROPPED)
    ok = False
    detail = ""
    for name, g in prog.fns.items():
        if not name.startswith(WITH_DROPPED + "::{closure") or g.ret_ty() != "bool":
            continue
        for c in g.calls:
            if c.sres.endswith("contains") and "slice" in c.sres:
                hay = deep_origins(prog, g, c.args[0])
                needle = origins(g, c.args[1])
                retv = []
                for b in g.blocks:
                    for st in b["stmts"]:
                        if st["k"] == "assign" and st["to"]["l"] == 0:
                            retv.append(st["rv"])
                direct = all(rv["k"] == "use" and any(o.kind == "call" and o.extra.bb == c.bb for o in origins(g, rv["op"])) for rv in retv)
                # the closure's return value is the call's destination itself
                dest_is_ret = (c.dest or {}).get("l") == 0
                detail = "hay=%s needle=%s" % ([(x.path, repr(o)) for (x, o) in hay][:3], needle[:3])
                if any(x.path == wd.path and o.kind == "param" and o.what == 2 for (x, o) in hay) and _has_field(needle, "id") and (dest_is_ret or (retv and direct)):
                    ok = True
    r.check(ok, "%s|extract_if(|x| ids.contains(&x.metadata.id))" % WITH_DROPPED,
            "with_dropped does not remove exactly the tables whose id is in the set", wd.where(), detail)
    exs = [c for n_, g_ in prog.fns.items() if n_.startswith(WITH_DROPPED) for c in g_.calls if c.sres.endswith("::extract_if")]
    r.check(len(exs) == 1, "%s|one extract_if per run, result extended into dropped_tables" % WITH_DROPPED,
            "with_dropped has %d extract_if sites" % len(exs), wd.where())
    r.floor(5)
