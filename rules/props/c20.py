"""C20 — obsolete files are reclaimed and nothing live is ever deleted.

Decided: C20.a–g of DESIGN.md §3. Not decided: directory contents over histories, Arc reference counts."""
from rules.engine import (MustSet, MaySet, must_pass, success_ordered, origins, short, hir_walk, hir_expr_str,
                          must_moved_in, is_moved, owns_by_value, success_cuts, witness_path, describe_path)
from rules import anchors as A
from rules.props import c05

EXPLANATION = (
    "Static decision of the file-lifecycle clauses C20.a-g: (a) table/blob files are unlinked only in the two Drop impls, "
    "control-dependent on the is_deleted flag, which is written only by mark_as_deleted and initialised false at every "
    "construction site; (b) marks are success-ordered after the version without the files is published (= C05.c); "
    "(c) every upgrade_version* site whose closure applies a removing transition (with_dropped, with_merge, fresh "
    "Version::new) reaches mark_as_deleted on its success paths; (d) version-file GC unlinks only v<id> of the entry it "
    "pops, and pops after the unlink; the number of popped entries is bounded by rposition(seqno < watermark); "
    "(e) recovery deletes unnamed files only after the version was recovered; (f) no read API reaches a mutator or an "
    "unlink in the call graph; (g) no success path drops a file-creating writer without finish() (definitely-moved "
    "dataflow on the success-CFG). Not decided: directory contents over histories; run-time Arc reference counts.")
KINDS = ["P", "O", "W", "K", "MV"]
LEVEL_TEXT = ("Static who-may-write / ordering / must-reach analysis of the file lifecycle: which code can unlink, under "
              "which flag, after which publication; that every transition removing files from the version marks them; "
              "that file-creating writers are consumed on all success paths. Quantifies over all histories and crash "
              "points for these structural clauses; directory contents and reference counts at run time are not decided.")

WRITERS = ["table::multi_writer::MultiWriter", "table::writer::Writer", "vlog::blob_file::multi_writer::MultiWriter",
           "vlog::blob_file::writer::Writer"]
REMOVING = ("version::Version::with_dropped", "version::Version::with_merge", "version::Version::new")

READ_APIS = ["get", "contains_key", "size_of", "range", "prefix", "iter", "len", "is_empty", "first_key_value",
             "last_key_value"]


def run(prog, R, tier="quick", only_rule=None):
    c20a(prog, R)
    c05.c05c(prog, R, rid="C20.b")
    c20c(prog, R)
    c20d(prog, R)
    c20e(prog, R)
    if tier == "thorough" or True:
        c20f(prog, R)
    c20g(prog, R)
    # a blob file that still holds live bytes must never be judged dead (it would be marked deleted and unlinked)
    from rules.props import c09
    c09.dead_rule_shared(prog, R, "C20.h")
    # the version file of the current version exists: no two history entries share a version id (maintenance unlinks v<id>
    # of every entry it pops)
    from rules.props import c04
    c04.c04g(prog, R, rid="C20.i")
    # every blob file a table of the new version points into is named by that version (with_merge applies new / dropped blob
    # files under complete guards)
    from rules.props import c08
    rj = R.rule("C20.j", "with_merge applies the blob-file changes of a compaction whenever there are any", "K")
    c08.with_merge_guards(prog, rj)
    rj.floor(2)
    c09.c09j(prog, R, rid="C20.k")
    # a version is visible in memory only after it is on disk (else the files it names may never become durable / named)
    from rules.props import c02
    c02.c02a(prog, R, rid="C20.l")
    c20m(prog, R)


def c20a(prog, R):
    r = R.rule("C20.a", "table/blob files are unlinked only through the is_deleted flag", "W,K")
    inners = ("table::inner::Inner", "vlog::blob_file::Inner")
    # writers of the flag: Atomic<bool>::store / swap / fetch_* whose receiver is an is_deleted field
    n_store = 0
    for p, f in sorted(prog.fns.items()):
        for c in f.calls:
            if not c.sres or "atomic::Atomic" not in c.sres:
                continue
            meth = c.sres.split("::")[-1]
            if meth in ("load", "new", "default", "fmt", "into_inner"):
                continue
            os_ = origins(f, c.args[0]) if c.args else []
            if not any("is_deleted" in o.path for o in os_):
                continue
            n_store += 1
            ok = f.path in (A.TABLE_MARK_DELETED, A.BLOB_MARK_DELETED)
            r.check(ok, "%s|writes is_deleted via %s" % (f.path, meth),
                    "the is_deleted flag is written outside mark_as_deleted", f.where(c.bb))
            if ok:
                v = origins(f, c.args[1])
                r.check(all(o.kind == "const" and o.what == "1" for o in v) and bool(v),
                        "%s|stores true" % f.path, "mark_as_deleted does not store the constant true", f.where(c.bb))
    if n_store < 2:
        r.anchor_missing("stores into is_deleted (expected 2, found %d)" % n_store)
    # construction sites initialise false
    n_cons = 0
    for p, f in sorted(prog.fns.items()):
        for i, b in enumerate(f.blocks):
            if b.get("cleanup"):
                continue
            for st in b["stmts"]:
                if st["k"] == "assign" and st["rv"]["k"] == "agg" and st["rv"].get("adt") in inners:
                    rv = st["rv"]
                    idx = rv["fields"].index("is_deleted")
                    os_ = origins(f, rv["ops"][idx])
                    good = bool(os_)
                    for o in os_:
                        if o.kind != "call":
                            good = False
                            continue
                        c = o.extra
                        if c.sres.endswith("::default") or "Default::default" in c.sres:
                            continue   # AtomicBool::default() == false
                        if c.sres.endswith("Atomic::new") or c.sres.endswith("::new"):
                            a = origins(f, c.args[0])
                            if not (a and all(x.kind == "const" and x.what == "0" for x in a)):
                                good = False
                        else:
                            good = False
                    n_cons += 1
                    r.check(good, "%s|constructs %s with is_deleted=false" % (f.path, rv["adt"]),
                            "a table/blob handle is constructed with is_deleted not provably false", f.where(i),
                            "origins: %s" % os_)
    if n_cons < 3:
        r.anchor_missing("construction sites of table::inner::Inner / vlog::blob_file::Inner (found %d)" % n_cons)
    # unlink of table/blob files: remove_file sites in Drop are guarded (shared with C05.c); here: the Drop impls exist
    for adt in inners:
        d = prog.fns.get("<%s as std::ops::Drop>::drop" % adt)
        if d is None:
            r.anchor_missing("Drop impl of " + adt)
            continue
        rm = d.calls_to(A.REMOVE_FILE)
        r.check(bool(rm) and all(c05.is_deleted_guarded(prog, d, c.bb) for c in rm),
                "%s|unlink guarded by is_deleted" % d.path, "Drop unlinks without testing is_deleted", d.where())
    r.floor(9)


def closure_transitions(prog, clos):
    """Callee paths of Version transitions called inside a closure (and nested closures)."""
    out = set()
    for g in [clos] + [x for x in prog.fns.values() if x.kind == "closure" and x.parent == clos.path]:
        for c in g.calls:
            if c.sres and c.sres.startswith("version::Version::"):
                out.add(c.sres)
    return out


def c20c(prog, R):
    r = R.rule("C20.c", "whoever removes files from the version marks them deleted", "P")
    # marks usually sit in `for` loops (zero iterations possible), possibly inside a helper: may-reach, then ordering
    tmark = MaySet(prog, [A.TABLE_MARK_DELETED], "may mark tables")
    bmark = MaySet(prog, [A.BLOB_MARK_DELETED], "may mark blob files")
    n = 0
    for uc in prog.all_calls(A.UPGRADE, A.UPGRADE_SEQNO):
        f = uc.fn
        if f.path in (A.UPGRADE,):
            continue
        for cb in prog.callbacks(uc):
            g = prog.fns.get(cb)
            if g is None:
                continue
            trans = closure_transitions(prog, g)
            removing = sorted(t for t in trans if t in REMOVING)
            if not removing:
                r.ok("%s|closure applies %s (adds only)" % (f.path, "/".join(short(t) for t in sorted(trans)) or "-"),
                     "no removing transition", nontrivial=False)
                continue
            n += 1
            key = "%s|removing transition %s => mark_as_deleted" % (f.path, "/".join(short(t) for t in removing))
            # success paths after the upgrade: must pass table marks (loop => MPT cannot see 'for' with zero iterations;
            # we require the mark call to be reachable after the upgrade succeeded and success-ordered after it)
            marks_t = [c for c in f.calls if tmark.call_in(c)]
            marks_b = [c for c in f.calls if bmark.call_in(c)]
            ok_t = any(success_ordered(f, uc, c.bb)[0] for c in marks_t)
            ok_b = any(success_ordered(f, uc, c.bb)[0] for c in marks_b)
            r.check(ok_t, key + "|tables",
                    "tables leave the version but are never marked deleted (their files stay on disk until reopen)",
                    f.where(uc.bb))
            r.check(ok_b, key + "|blob files",
                    "blob files can leave the version but are never marked deleted", f.where(uc.bb))
    r.floor(10)


def c20d(prog, R, rid="C20.d"):
    r = R.rule(rid, "version-file GC removes only the file of the entry it pops, and keeps what a snapshot may need", "P,D,B")
    f = prog.need(A.MAINTENANCE)
    fam = prog.family(f)
    rms = [c for g in fam for c in g.calls_to(A.REMOVE_FILE)]
    if not rms:
        r.anchor_missing("remove_file in SuperVersions::maintenance")
    pops = f.calls_to(A.VEC_DEQUE_POP_FRONT)
    if not pops:
        r.anchor_missing("pop_front in maintenance")
    # the unlink (through retry_transient_io) is followed by pop_front before the next front()
    retry = [c for c in f.calls if any(cb in [g.path for g in fam] for cb in prog.callbacks(c))
             and any(x.fn.path in prog.callbacks(c) for x in rms)]
    fronts = f.calls_to("std::collections::VecDeque::front")
    for rc in retry:
        ok = must_pass(f, {p.bb for p in pops}, from_bbs=[rc.bb], to_bbs=[x.bb for x in fronts] + f.return_blocks())
        r.check(ok, "%s|unlink v<id> => pop_front before the next entry" % f.path,
                "a version file is unlinked but its entry stays in the history (or the next file is unlinked first)",
                f.where(rc.bb))
    # the path derives from front().version.id()
    h = prog.hir.get(f.path)
    if h is None:
        r.anchor_missing("HIR of maintenance")
        return
    body = h["body"]
    # rposition predicate: x.seqno < gc_watermark
    preds = [n for n in hir_walk(body) if n.get("k") == "mcall" and n.get("m") == "rposition"]
    ok = False
    for n in preds:
        clo = n["a"][0] if n["a"] else None
        if clo and clo.get("k") == "closure":
            e = clo["b"]
            s = hir_expr_str(e)
            ok = e.get("k") == "bin" and e["op"] == "<" and s == "(x.seqno < gc_watermark)"
            r.check(ok, "%s|keep-bound: rposition(%s)" % (f.path, s),
                    "version GC bound is not `entry.seqno < watermark` (entries a snapshot at the watermark may need could go)",
                    f.where(), s)
    if not preds:
        r.anchor_missing("rposition(..) in maintenance")
    # loop bound 0..hi_idx (strictly below the kept entry)
    fors = [n for n in hir_walk(body) if n.get("k") == "for"]
    okb = False
    for n in fors:
        it = n["iter"]
        if it.get("k") == "struct" and it.get("p") == "std::ops::Range":
            fs = {x["n"]: hir_expr_str(x["e"]) for x in it["f"]}
            okb = fs.get("start") == "0" and fs.get("end") == "hi_idx"
            r.check(okb, "%s|pops indices 0..hi_idx (exclusive)" % f.path,
                    "version GC pops up to and including the entry a snapshot at the watermark resolves to", f.where(),
                    str(fs))
    if not fors:
        r.anchor_missing("for-loop over 0..hi_idx in maintenance")
    # unlink target is v<id of the front entry>
    lets = [n for n in hir_walk(body) if n.get("k") == "let" and n.get("init")]
    path_ok = False
    for n in lets:
        if n["pat"].get("k") == "bind" and n["pat"]["n"] == "path":
            s = hir_expr_str(n["init"], 300)
            path_ok = "head.version.id()" in s or "head.version.id" in s
            # format! args are collapsed; accept the macro with the join receiver
            if not path_ok:
                for m in hir_walk(n["init"]):
                    if m.get("k") == "mcall" and m.get("m") == "id":
                        path_ok = hir_expr_str(m["r"]) == "head.version"
    r.check(path_ok, "%s|unlink target derives from head.version.id()" % f.path,
            "the unlinked version file is not the one of the popped (front) entry", f.where())
    r.floor(4)


def c20e(prog, R):
    r = R.rule("C20.e", "recovery deletes everything unnamed, and only after the version was recovered", "O,W,B")
    f = prog.need("tree::Tree::recover_levels")
    fr = f.calls_to("version::Version::from_recovery")
    if not fr:
        r.anchor_missing("Version::from_recovery in recover_levels")
        return
    for c in f.calls_to(A.REMOVE_FILE) + f.calls_to("tree::Tree::cleanup_orphaned_version"):
        ok, why = success_ordered(f, fr[0], c.bb)
        r.check(ok, "%s|from_recovery=>%s" % (f.path, short(c.sres)), "recovery deletes files before the version is recovered: " + why,
                f.where(c.bb), why)
    # every successful recovery scans the directories for unnamed files
    scan_dirs(prog, r)
    # cleanup predicate: starts_with('v') && name != current, directories skipped
    g = prog.need("tree::Tree::cleanup_orphaned_version")
    h = prog.hir.get(g.path)
    conds = [hir_expr_str(n["c"], 300) for n in hir_walk(h["body"]) if n.get("k") == "if"]
    has_dir_skip = any("is_dir()" in c for c in conds)
    has_pred = any("starts_with" in c and "!=" in c and "version_str" in c for c in conds)
    r.check(has_dir_skip, "%s|directories skipped" % g.path, "orphan cleanup no longer skips directories", g.where(), str(conds))
    r.check(has_pred, "%s|predicate starts_with('v') && != current" % g.path,
            "orphan cleanup predicate changed: it may delete the current version file or keep stale ones", g.where(), str(conds))
    r.floor(8)


READ_DIR = "std::fs::read_dir"


def scan_dirs(prog, r):
    """recover_levels / recover_blob_files / cleanup_orphaned_version list their directory on every success path;
    the only tolerated scan-free success return is the one guarded solely by `folder.try_exists()` (a standard
    tree has no blobs/ directory)."""
    from rules.engine import origin_callees, control_deps_transitive
    for name in ("tree::Tree::recover_levels", "vlog::recover_blob_files", "tree::Tree::cleanup_orphaned_version"):
        f = prog.need(name)
        rd = {c.bb for c in f.calls_to(READ_DIR)}
        key = "%s|directory scan on every success path" % name
        if not rd:
            r.bad(key, "recovery no longer lists the directory (orphans cannot be found)", f.where())
            continue
        cb, ce = success_cuts(f)
        reach = f.reach([0], cut_blocks=set(cb) | rd, cut_edges=ce)
        free = [b for b in f.return_blocks() if b in reach]
        if not free:
            r.ok(key, "every success return passes read_dir")
            continue
        # tolerated: guarded only by try_exists
        bad = None
        for b in free:
            w = witness_path(f, [0], [b], cut_blocks=set(cb) | rd, cut_edges=ce) or []
            conds = set()
            for x in w:
                t = f.blocks[x]["term"]
                if t["k"] == "switch":
                    names = origin_callees(f, t["discr"])
                    names = {n for n in names if not n.endswith("::branch")}
                    if not names:
                        # a switch on a plain discriminant of a `?` is control flow of the error path
                        os_ = origins(f, t["discr"])
                        if any(o.kind == "discr" for o in os_):
                            continue
                        conds.add("<non-call condition>")
                    conds |= names
            if conds - {"std::path::Path::try_exists"}:
                bad = (b, sorted(conds))
                break
        if bad:
            r.bad(key, "a success return of recovery skips the directory scan under a condition other than "
                       "`directory does not exist`: %s (leftover files would never be reclaimed)" % bad[1], f.where(bad[0]))
        else:
            r.ok(key + "|scan-free return only when the directory is missing", "guarded solely by Path::try_exists")


def c20f(prog, R, rid="C20.f"):
    r = R.rule(rid, "read APIs never reach a mutator or an unlink (call-graph reachability)", "W")
    roots = []
    for ty in (A.TREE, A.BLOBTREE):
        for m in READ_APIS:
            p = A.tm(ty, m)
            if p in prog.fns:
                roots.append(p)
    for m in READ_APIS:
        p = "abstract_tree::AbstractTree::" + m
        if p in prog.fns:
            roots.append(p)
    # what the returned iterators and guards do when the caller drives them
    n_api = len(roots)
    for ti in ("std::iter::Iterator::next", "std::iter::DoubleEndedIterator::next_back", "iter_guard::IterGuard::key",
               "iter_guard::IterGuard::into_inner", "iter_guard::IterGuard::size", "iter_guard::IterGuard::into_inner_if"):
        for p in prog.impl_of_trait_item.get(ti, []):
            if p.startswith("<compaction::") or p.startswith("<vlog::blob_file::merge::") or p.startswith("<run_scanner::"):
                continue   # driven by compaction / blob GC, never handed to a reader
            if p in prog.fns:
                roots.append(p)
    if n_api < 12 or len(roots) < 40:
        r.anchor_missing("read API roots (found %d api, %d total)" % (n_api, len(roots)))
    bad_prims = [A.UPGRADE, A.UPGRADE_SEQNO, A.REPLACE_LATEST, A.MAINTENANCE, A.TABLE_MARK_DELETED, A.BLOB_MARK_DELETED,
                 A.REMOVE_FILE, A.FILE_CREATE, A.FILE_CREATE_NEW, A.APPEND_VERSION, A.PERSIST_VERSION]
    reach, parent = prog.reachable_fns(roots)
    hits = []
    for p in sorted(reach):
        f = prog.fns[p]
        # Drop impls run when a handle is released, not as part of the read
        for c in f.calls:
            if c.is_to(*bad_prims):
                hits.append((p, c))
    for (p, c) in hits:
        chain = [p]
        x = p
        while x in parent:
            x = parent[x]
            chain.append(x)
        r.bad("%s|reaches %s" % (chain[-1], short(c.sres)),
              "a read API reaches a state-changing primitive: " + " <- ".join(chain[:8]), prog.fns[p].where(c.bb))
    r.ok("read-api-closure|%d roots" % len(roots), "%d functions reachable, none calls a mutator/unlink primitive"
         % len(reach))
    # positive control: the same query from a writer must hit
    ctrl, _ = prog.reachable_fns([A.TREE_CLEAR]) if A.TREE_CLEAR in prog.fns else (set(), {})
    hit = any(c.is_to(A.UPGRADE) for p in ctrl for c in prog.fns[p].calls)
    r.check(hit, "control|clear() reaches upgrade_version", "reachability query is blind (clear does not reach upgrade_version)")
    r.floor(2)


def owner_types(prog):
    owners = set(WRITERS)
    changed = True
    while changed:
        changed = False
        for p, a in prog.adts.items():
            if p in owners:
                continue
            for v in a["variants"]:
                for fd in v["fields"]:
                    if owns_by_value(fd["ty"], owners):
                        owners.add(p)
                        changed = True
    return owners


def live_path_to_drop(f, drop_bb, place, extra_cut=()):
    """Is there a success-CFG path on which `place` is initialised and never moved up to its Drop in drop_bb?
    Returns a witness path or None."""
    from rules.engine import _moves_and_inits, _place_key
    key = _place_key(place["l"], place.get("p"))
    whole = (place["l"], None)
    behind_ptr = key is not None and key[0] == "*"
    if behind_ptr:
        whole = None   # the pointer temp is re-created at every use; the value behind it lives since entry
    move_blocks = set()
    init_blocks = set()
    for b in range(f.n):
        if f.is_cleanup(b) or b == drop_bb:
            continue
        for (k, kk) in _moves_and_inits(f, b):
            if k == "move" and (kk == whole or (key is not None and kk == key)):
                move_blocks.add(b)
            if k == "init" and (kk == whole or (key is not None and kk == key)):
                init_blocks.add(b)
    cb, ce = success_cuts(f)
    starts = []
    if 1 <= place["l"] <= f.argc or behind_ptr:
        starts.append(0)
    for b in init_blocks:
        starts.extend(f.succ(b))
    cuts = set(cb) | (move_blocks - {0}) | set(extra_cut)
    if 0 in move_blocks and 0 in starts:
        starts.remove(0)
    return witness_path(f, starts, [drop_bb], cut_blocks=cuts - {drop_bb}, cut_edges=ce)


def c20g(prog, R):
    r = R.rule("C20.g", "file-creating writers are consumed (finish) on every success path", "MV")
    owners = owner_types(prog) | {"dyn compaction::flavour::CompactionFlavour"}
    seen_fns = set()
    n_drops = 0
    for p, f in sorted(prog.fns.items()):
        if f.derived:
            continue
        if not any(owns_by_value(l["ty"], owners) for l in f.locals):
            continue
        seen_fns.add(p)
        rets = set(f.return_blocks())
        cb, ce = success_cuts(f)
        for i, b in enumerate(f.blocks):
            if b.get("cleanup"):
                continue
            t = b["term"]
            if t["k"] != "drop" or not owns_by_value(t["ty"], owners):
                continue
            # only drops that lie on a path to a success return matter
            if not (f.reach([i], cut_blocks=cb, cut_edges=ce) & rets):
                continue
            n_drops += 1
            key = "%s|success-path drop of %s" % (f.path, short(t["ty"].split("<")[0]))
            w = live_path_to_drop(f, i, t["place"])
            if w is None:
                r.ok(key, "moved out (finish / hand-over) on every success path before the drop point")
                continue
            # tabled idiom: nothing was written and the file is unlinked explicitly before the writer is dropped
            rm_blocks = {c.bb for c in f.calls_to(A.REMOVE_FILE)}
            w2 = live_path_to_drop(f, i, t["place"], extra_cut=rm_blocks) if rm_blocks else w
            if w2 is None:
                r.ok(key + "|after explicit remove_file", "empty writer: its file is unlinked explicitly on every such path")
                continue
            r.bad(key, "a file-creating writer is dropped on a success path without finish(): its pre-created file stays "
                       "on disk, unnamed by any version", f.where(i), "path: %s" % describe_path(f, w2))
    r.ok("census|%d functions hold a writer-owning local" % (len(seen_fns) // 5 * 5), ", ".join(sorted(seen_fns))[:300],
         nontrivial=False)
    if len(seen_fns) < 15 or n_drops < 5:
        r.anchor_missing("writer-owning locals / drops (fns %d, drops %d)" % (len(seen_fns), n_drops))
    r.floor(5)


def c20m(prog, R, rid="C20.m"):
    """register_tables is handed freshly written table / blob files.  On every success path it either publishes them (version
    upgrade) or - when it discards the flush result because its sealed memtables are gone - marks them deleted; otherwise the
    files stay on disk, named by no version, until the next reopen (finding F15)."""
    from rules.engine import must_pass, MaySet
    r = R.rule(rid, "a flush result is either published or marked deleted", "P")
    f = prog.need(A.tm(A.TREE, "register_tables"))
    ups = MaySet(prog, [A.UPGRADE, A.UPGRADE_SEQNO], "upgrade")
    marks = {c.bb for c in f.calls if c.sres == A.TABLE_MARK_DELETED}
    # the marking loop over the `tables` parameter (an empty slice legitimately marks nothing: count the loop, not its body)
    loops = set()
    for c in f.calls:
        if c.sres.endswith(("::into_iter", "slice::iter")) and c.args and \
                any(o.kind == "param" and f.local_name(o.what) == "tables" for o in origins(f, c.args[0])) and (marks & f.reach_after(c.bb)):
            loops.add(c.bb)
    S = {c.bb for c in f.calls if ups.call_in(c)} | loops
    r.check(bool(S) and must_pass(f, S), "%s|every success path publishes the tables or marks them deleted" % f.path,
            "register_tables can return Ok without publishing the flushed tables and without marking them deleted: their files "
            "stay in tables/ (and blobs/) although no version names them", f.where())
    r.floor(1)
