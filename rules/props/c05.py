"""C05 — a crash at any instant recovers to the state before or after the interrupted operation.

Decided: the on-disk publication protocol (DESIGN.md §3 C05.a–d). Not decided: equality of the recovered
content with a model."""
from rules.engine import (MustSet, MaySet, must_pass, success_ordered, witness_path, describe_path, success_cuts, short,
                          origins, deep_origins, control_deps_transitive, switch_condition)
from rules import anchors as A

EXPLANATION = (
    "Static decision of the crash-safety protocol clauses C05.a-d on the MIR control-flow graphs of /repo: "
    "(a) every file-producing finish function passes File::sync_all and then fsync_directory on every success "
    "path after the archive is finalised (must-pass-through on the success-CFG, summaries to fixpoint); "
    "(b) persist_version / rewrite_atomic order (v-file sync => directory sync => atomic rename of `current` => sync "
    "=> directory sync) and producer-finish success-ordered before every version upgrade in every publisher; "
    "(c) every mark_as_deleted is success-ordered after an upgrade_version* call and every std::fs::remove_file "
    "site satisfies one of the enumerated predicates (Drop guarded by is_deleted, recovery orphans after "
    "from_recovery, version-file GC, writer-produced-nothing cleanup); (d) tree creation syncs the new "
    "directories before the first version is published. A CFG 'must' result holds for every crash point because "
    "every execution prefix is a CFG path prefix. Not decided: equality of the recovered logical content with a model.")
KINDS = ["P", "O", "W", "K"]


def run(prog, R, tier="quick", only_rule=None):
    c05a(prog, R)
    c05b(prog, R)
    c05c(prog, R)
    c05d(prog, R)
    c05e(prog, R)
    c05f(prog, R)
    # never an unopenable directory: `current` must not end up naming a version file the version GC has unlinked
    from rules.props import c04
    c04.c04g(prog, R, rid="C05.g")
    from rules.props import c16
    c16.c16e(prog, R, rid="C05.h")


def dirsync_set(prog):
    return MustSet(prog, [A.FSYNC_DIR], "fsync_directory*")


def c05a(prog, R, rid="C05.a"):
    r = R.rule(rid, "every published file is synced, then its directory, before the id/checksum is returned", "P")
    dsync = dirsync_set(prog)
    # producers are found by role: a body that finalises an sfa archive (into_inner / finish) on a file
    producers = []
    for p, f in sorted(prog.fns.items()):
        fin = f.calls_to(A.SFA_INTO_INNER, A.SFA_FINISH)
        if fin:
            producers.append((f, fin))
    for f, fins in producers:
        for fin in fins:
            key = "%s|archive-finalise=>sync_all" % f.path
            syncs = f.calls_to(A.SYNC_ALL)
            sync_bbs = {c.bb for c in syncs}
            ok1 = bool(syncs) and must_pass(f, sync_bbs, from_bbs=[fin.bb])
            if not ok1:
                cb, ce = success_cuts(f)
                w = witness_path(f, f.succ(fin.bb), f.return_blocks(), cut_blocks=set(cb) | sync_bbs, cut_edges=ce)
                r.bad(key, "a success path from %s to return does not pass File::sync_all" % short(fin.sres),
                      f.where(fin.bb), "path: %s" % (describe_path(f, w) if w else "?"))
                continue
            r.ok(key, "%d sync_all site(s) cover every success path after %s" % (len(syncs), short(fin.sres)))
            # directory sync after the file sync: inside the function, or in every caller after the call
            key2 = "%s|sync_all=>fsync_directory" % f.path
            inside = must_pass(f, dsync, from_bbs=list(sync_bbs))
            if inside:
                r.ok(key2, "fsync_directory follows sync_all on every success path inside the producer")
                continue
            callers = [c for c in prog.all_calls(f.path)]
            if callers and all(must_pass(c.fn, dsync, from_bbs=[c.bb]) for c in callers):
                r.ok(key2, "fsync_directory follows in every caller (%s)" % ", ".join(sorted({c.fn.path for c in callers})))
                continue
            cb, ce = success_cuts(f)
            w = witness_path(f, [s for b in sync_bbs for s in f.succ(b)], f.return_blocks(),
                             cut_blocks=set(cb) | dsync.blocks_in(f), cut_edges=ce)
            r.bad(key2, "file is fsynced but its directory is not: no fsync_directory after sync_all on a success path "
                        "(neither in the producer nor in all of its %d caller(s))" % len(callers),
                  f.where(), "path: %s" % (describe_path(f, w) if w else "?"))
    # rewrite_atomic: the temp file is synced before the rename and the result + directory afterwards
    f = prog.need(A.REWRITE_ATOMIC)
    pers = f.calls_to(A.PERSIST_TEMP, A.PERSIST)
    if not pers:
        r.anchor_missing("rename (persist_temp_file / NamedTempFile::persist) in rewrite_atomic")
    for pc in pers:
        syncs = {c.bb for c in f.calls_to(A.SYNC_ALL)}
        before = must_pass(f, syncs, from_bbs=None, to_bbs=[pc.bb])
        r.check(before, "%s|sync_all(temp)=>rename" % f.path, "temp file is renamed into place without a preceding sync_all",
                f.where(pc.bb), "every path entry -> rename passes sync_all")
        after = must_pass(f, syncs, from_bbs=[pc.bb])
        r.check(after, "%s|rename=>sync_all" % f.path, "no sync_all after the rename on a success path", f.where(pc.bb))
        after2 = must_pass(f, dsync, from_bbs=[pc.bb])
        r.check(after2, "%s|rename=>fsync_directory" % f.path, "directory not synced after the rename on a success path",
                f.where(pc.bb))
        wr = f.calls_to(A.WRITE_ALL)
        r.check(bool(wr) and all(f.dominates(w.bb, pc.bb) for w in wr), "%s|write_all dominates rename" % f.path,
                "content is not written before the rename on every path", f.where(pc.bb))
    r.floor(9)


def c05b(prog, R):
    r = R.rule("C05.b", "publication order: v-file durable => current switched; producers finish before upgrade", "O,N")
    f = prog.need(A.PERSIST_VERSION)
    dsync = dirsync_set(prog)
    rw = f.calls_to(A.REWRITE_ATOMIC)
    if not rw:
        r.anchor_missing("rewrite_atomic call in persist_version")
    for rc in rw:
        syncs = {c.bb for c in f.calls_to(A.SYNC_ALL)}
        r.check(bool(syncs) and must_pass(f, syncs, from_bbs=None, to_bbs=[rc.bb], success_only=False),
                "%s|sync_all(v-file)=>rewrite_atomic(current)" % f.path,
                "`current` can be switched to a version file that was not fsynced", f.where(rc.bb))
        r.check(bool(syncs) and must_pass(f, dsync, from_bbs=list(syncs), to_bbs=[rc.bb], success_only=False),
                "%s|sync_all=>fsync_directory=>rewrite_atomic" % f.path,
                "`current` can be switched before the directory entry of the version file is durable", f.where(rc.bb))
        enc = f.calls_to("version::Version::encode_into")
        fin = f.calls_to(A.SFA_FINISH)
        for c in enc + fin:
            ok, why = success_ordered(f, c, rc.bb)
            r.check(ok, "%s|%s=>rewrite_atomic" % (f.path, short(c.sres)), "publication not success-ordered after %s: %s"
                    % (short(c.sres), why), f.where(c.bb), why)
        if not enc:
            r.anchor_missing("Version::encode_into in persist_version")
        # every success return passes the switch
        r.check(must_pass(f, {rc.bb}), "%s|every success path switches current" % f.path,
                "persist_version can return Ok without switching `current`", f.where())
    # publishers: producer finish success-ordered before the upgrade
    producers = MaySet(prog, [A.TABLE_MULTI_FINISH, A.BLOB_MULTI_FINISH, A.TABLE_WRITER_FINISH, A.BLOB_WRITER_FINISH],
                       "may-reach producer finish")
    upgraders = MaySet(prog, [A.UPGRADE, A.UPGRADE_SEQNO], "may-reach upgrade")
    n = 0
    for p, g in sorted(prog.fns.items()):
        ups = [c for c in g.calls if upgraders.call_in(c)]
        if not ups:
            continue
        prods = [c for c in g.calls if producers.call_in(c) and not upgraders.call_in(c)]
        for pc in prods:
            for uc in ups:
                if pc.bb == uc.bb:
                    continue
                fwd = uc.bb in g.reach_after(pc.bb)
                back = pc.bb in g.reach_after(uc.bb)
                if not fwd and not back:
                    continue
                key = "%s|%s=>%s" % (g.path, short(pc.sres), short(uc.sres))
                if not fwd:
                    # an earlier, separate publication (e.g. the memtable flush that precedes an ingestion)
                    continue
                ok, why = success_ordered(g, pc, uc.bb)
                r.check(ok, key, "version upgrade is not success-ordered after the producer's finish: %s" % why,
                        g.where(uc.bb), why)
                n += 1
    r.note = None
    r.floor(12)


def is_deleted_guarded(prog, f, bb):
    """The block is control-dependent on a read of an `is_deleted` field (AtomicBool::load)."""
    for (a, s) in control_deps_transitive(f, bb):
        for o in switch_condition(f, a):
            if o.kind == "call" and o.what and "atomic::Atomic" in o.what and o.what.endswith("::load"):
                c = o.extra
                for oo in origins(f, c.args[0]):
                    if "is_deleted" in oo.path:
                        return True
    return False


def c05c(prog, R, rid="C05.c"):
    r = R.rule(rid, "nothing old is unlinked before the version without it is published", "O,W,K")
    upgraders = MustSet(prog, [A.UPGRADE, A.UPGRADE_SEQNO], "upgrade*")
    marks = prog.all_calls(A.TABLE_MARK_DELETED, A.BLOB_MARK_DELETED)

    def ordered_after_upgrade(g, bb, depth=0):
        """The site (g, bb) runs only after a successful upgrade: in g itself, or - when g is a helper / a closure
        handed to some other call - at every place g is invoked from (two levels)."""
        ups = [c for c in g.calls if upgraders.call_in(c)]
        why = "no upgrade_version* call in the function"
        for uc in ups:
            ok, why = success_ordered(g, uc, bb)
            if ok:
                return True, why
        if ups or depth >= 2:
            return False, why
        sites = []
        if g.kind == "closure":
            parent = prog.fns.get(g.parent)
            if parent is not None:
                for c in parent.calls:
                    if g.path in prog.callbacks(c):
                        if c.is_to(A.UPGRADE, A.UPGRADE_SEQNO):
                            return False, "runs inside the transition closure, i.e. before the new version is persisted"
                        sites.append((parent, c.bb))
        else:
            for c in prog.all_calls(g.path):
                sites.append((c.fn, c.bb))
        if not sites:
            return False, why
        for (h, hb) in sites:
            ok, w2 = ordered_after_upgrade(h, hb, depth + 1)
            if not ok:
                return False, "%s (via %s)" % (w2, h.path)
        return True, "every invocation site is success-ordered after an upgrade"

    may_up = MaySet(prog, [A.UPGRADE, A.UPGRADE_SEQNO, A.PERSIST_VERSION], "may reach a version upgrade")

    def never_published_output(g, mc):
        """The marked object is an output this operation wrote itself and was handed as a parameter (freshly flushed tables /
        blob files), on a path on which no version upgrade has been attempted before and none is attempted afterwards: the
        files are named by no version, neither in memory nor on disk (finding F15: a discarded flush result)."""
        def roots(op, d=8, seen=None):
            seen = seen if seen is not None else set()
            out = []
            for o in origins(g, op):
                if o.kind == "call" and d > 0 and o.extra.bb not in seen and o.extra.args and not o.extra.local:
                    seen.add(o.extra.bb)        # iterator plumbing of std: next / into_iter / flatten / iter
                    for a_ in o.extra.args:
                        out += roots(a_, d - 1, seen)
                else:
                    out.append(o)
            return out
        recv = roots(mc.args[0])
        if not recv or not all(o.kind == "param" and g.local_name(o.what) in ("tables", "blob_files") for o in recv):
            return False
        ups = {c.bb for c in g.calls if may_up.call_in(c)}
        before = any(mc.bb in g.reach_after(b) for b in ups)
        after = bool(g.reach_after(mc.bb) & ups)
        return not before and not after

    for mc in marks:
        g = mc.fn
        key = "%s|upgrade=>%s" % (g.path, short(mc.sres))
        if never_published_output(g, mc):
            r.ok("%s|%s of a never-published output" % (g.path, short(mc.sres)), "marked on a path without any version upgrade; receiver = the "
                 "operation's own freshly written files")
            continue
        good, why = ordered_after_upgrade(g, mc.bb)
        r.check(good, key, "mark_as_deleted is not success-ordered after a version upgrade: %s" % why, g.where(mc.bb), why)
    # remove_file census
    rm = prog.all_calls(A.REMOVE_FILE)
    for c in rm:
        g = c.fn
        root = prog.fns.get(g.root, g)
        key = "%s|remove_file" % g.path
        # (1) Drop impls guarded by is_deleted
        if root.trait_item == "std::ops::Drop::drop" or root.path.endswith("as std::ops::Drop>::drop"):
            r.check(is_deleted_guarded(prog, g, c.bb), key + "|drop-guarded-by-is_deleted",
                    "unlink in Drop is not control-dependent on the is_deleted flag", g.where(c.bb))
            continue
        # (2) recovery: success-ordered after Version::from_recovery
        fr = root.calls_to("version::Version::from_recovery")
        if fr and g is root:
            ok, why = success_ordered(g, fr[0], c.bb)
            r.check(ok, key + "|after-from_recovery", "recovery unlinks a file before the version was fully recovered: " + why,
                    g.where(c.bb), why)
            continue
        if root.path == "tree::Tree::cleanup_orphaned_version":
            # its only caller must call it after from_recovery
            callers = prog.all_calls(root.path)
            allok = bool(callers)
            for cc in callers:
                fr2 = cc.fn.calls_to("version::Version::from_recovery")
                if not fr2 or not success_ordered(cc.fn, fr2[0], cc.bb)[0]:
                    allok = False
            r.check(allok, key + "|caller-after-from_recovery",
                    "cleanup_orphaned_version is callable before the version was recovered", g.where(c.bb))
            continue
        # (3) version-file GC in SuperVersions::maintenance
        if root.path == A.MAINTENANCE:
            r.ok(key + "|version-file-gc", "SuperVersions::maintenance (targets checked under C20.d)")
            continue
        # (4) writer produced nothing: the function returns None / Ok(None) on that path and no id escapes
        if root.path in (A.TABLE_WRITER_FINISH, A.BLOB_CONSUME_WRITER):
            ok = nothing_published_path(g, c)
            r.check(ok, key + "|writer-produced-nothing",
                    "a writer unlinks its file on a path that still returns an id (Some)", g.where(c.bb))
            # "nothing" means no item: the test that leads to the unlink compares the writer's item count with 0 (a byte count
            # is not that: a file holding only empty values has items the tables point to)
            cond_ok = False
            for (a_, s_) in control_deps_transitive(g, c.bb):
                for o in switch_condition(g, a_):
                    if o.kind == "bin" and o.what in ("Eq", "Gt", "Ne", "Lt") and isinstance(o.extra, dict):
                        ops_ = origins(g, o.extra["a"]) + origins(g, o.extra["b"])
                        has_cnt = any(x.path and x.path[-1] == "item_count" for x in ops_)
                        has_zero = any(x.kind == "const" and str(x.what) == "0" for x in ops_)
                        t_ = g.blocks[a_]["term"]
                        zero_t = [tg for (v, tg) in t_.get("targets", []) if str(v) == "0"]
                        on_true = s_ not in zero_t
                        empty_edge = (o.what == "Eq" and on_true) or (o.what in ("Gt", "Ne") and not on_true) or (o.what == "Lt" and on_true)
                        cond_ok = cond_ok or (has_cnt and has_zero and empty_edge)
            r.check(cond_ok, key + "|unlinks only when item_count == 0",
                    "the writer's pre-created file is unlinked under another condition than `no item was written` (e.g. a byte count): "
                    "a file that tables point into is deleted right after it was written", g.where(c.bb))
            continue
        r.bad(key + "|unclassified", "std::fs::remove_file outside the enumerated safe contexts (Drop+is_deleted, "
              "recovery after from_recovery, version-file GC, empty-writer cleanup)", g.where(c.bb))
    r.floor(6 + 10)


def nothing_published_path(f, c):
    """After the unlink every success path to return assigns Option::None (wrapped in Ok) — never Some."""
    r = f.reach_after(c.bb)
    for b in r:
        for st in f.blocks[b]["stmts"]:
            if st["k"] == "assign" and st["rv"]["k"] == "agg" and st["rv"].get("adt") == "std::option::Option" \
                    and st["rv"].get("variant") == "Some":
                return False
    return True


MKDIR = ("std::fs::create_dir_all", "std::fs::create_dir", "std::fs::DirBuilder::create")


def c05d(prog, R):
    r = R.rule("C05.d", "tree creation syncs new directories before the first version is published", "P")
    f = prog.need("tree::Tree::create_new")
    dsync = dirsync_set(prog)
    mk = f.calls_to(*MKDIR)
    persist = MustSet(prog, [A.PERSIST_VERSION], "persist*")
    pub = [c for c in f.calls if persist.call_in(c)]
    if not pub:
        r.anchor_missing("persist_version reached from Tree::create_new")
    if len(mk) < 2:
        r.anchor_missing("two directory creations in Tree::create_new")
    for pc in pub:
        for m in mk:
            ok = must_pass(f, dsync, from_bbs=[m.bb], to_bbs=[pc.bb], success_only=False)
            r.check(ok, "%s|mkdir@%d=>fsync_directory=>persist" % (f.path, mk.index(m)),
                    "first version can be published before the new directory is synced", f.where(m.bb))
        ds = [c for c in f.calls if dsync.call_in(c)]
        r.check(len(ds) >= 2, "%s|both directories synced" % f.path, "fewer than two directory syncs in create_new",
                f.where(), "%d fsync_directory call(s)" % len(ds))
    # BlobTree::open creates blobs/ and syncs it
    g = prog.need("blob_tree::BlobTree::open")
    mk = g.calls_to(*MKDIR)
    if not mk:
        r.anchor_missing("directory creation in BlobTree::open")
    for m in mk:
        r.check(must_pass(g, dsync, from_bbs=[m.bb]), "%s|mkdir(blobs)=>fsync_directory" % g.path,
                "blobs/ directory created without a directory sync on a success path", g.where(m.bb))
    # recover_levels re-creates tables/ when missing
    h = prog.need("tree::Tree::recover_levels")
    for m in h.calls_to(*MKDIR):
        r.check(must_pass(h, dsync, from_bbs=[m.bb]), "%s|mkdir(tables)=>fsync_directory" % h.path,
                "tables/ directory re-created without a directory sync", h.where(m.bb))
    r.floor(5)


def c05e(prog, R):
    r = R.rule("C05.e", "creation and recovery tolerate what an interrupted attempt left behind", "W")
    # directories: only the idempotent create_dir_all (a crash after mkdir must not make the next open fail)
    n = 0
    for c in prog.all_calls(*MKDIR):
        n += 1
        r.check(c.sres == "std::fs::create_dir_all", "%s|creates its directory idempotently" % c.fn.path,
                "a directory is created with the non-idempotent %s: after a crash between this mkdir and the publication "
                "of `current` every later open fails with AlreadyExists" % short(c.sres), c.fn.where(c.bb))
    if n < 4:
        r.anchor_missing("directory creation sites (found %d)" % n)
    # files: create_new (fails on leftovers) only where the name is a fresh id (table writer); everything else truncates
    for c in prog.all_calls(A.FILE_CREATE_NEW):
        ok = c.fn.path == "table::writer::Writer::new"
        r.check(ok, "%s|File::create_new only for fresh table ids" % c.fn.path,
                "a file is opened with create_new outside the table writer: a leftover of a crashed attempt makes every "
                "retry fail", c.fn.where(c.bb))
    # Tree::open decides between create and recover on the presence of `current` (the last thing a creation publishes)
    o = prog.need("tree::Tree::open")
    h = prog.hir.get(o.path)
    conds = []
    if h:
        from rules.engine import hir_walk, hir_expr_str
        conds = [hir_expr_str(n_["c"], 200) for n_ in hir_walk(h["body"]) if n_.get("k") == "if"]
    r.check(any("CURRENT_VERSION_FILE" in c and "try_exists" in c for c in conds), "%s|recover iff `current` exists" % o.path,
            "open() no longer keys the create/recover decision on the `current` file", o.where(), str(conds))
    r.floor(6)

LEVEL_TEXT = ("Static must/ordering analysis of the crash-safety protocol on every MIR control-flow path: sync before "
              "publish, publish order of v<N>/current, publish before unlink, durable directory creation. Holds for every "
              "crash point because each execution prefix is a CFG path prefix; it does not decide equality of the "
              "recovered content with a model (needs run-time values).")


FLUSHERS = ("std::io::Write::flush", "std::io::BufWriter::flush", "std::io::BufWriter::into_inner")
AFTER_FLUSH_OK = ("get_mut", "get_ref", "checksum", "drop", "drop_in_place", "inner_mut", "into_inner", "sync_all", "sync_data")


def c05f(prog, R, rid="C05.f"):
    """A file's bytes must have left every user-space buffer when it is fsynced: otherwise the fsync covers a prefix,
    the tail is written when the BufWriter drops, and a crash after the operation returned loses it."""
    r = R.rule(rid, "buffered bytes are flushed into the file before it is fsynced; writer wrappers are transparent", "P,G")
    # (1) crate-local io::Write wrappers delegate flush and write to the wrapped writer
    n = 0
    for p, f in sorted(prog.fns.items()):
        if not p.endswith(" as std::io::Write>::flush") and not p.endswith(" as std::io::Write>::write"):
            continue
        which = p.rsplit("::", 1)[1]
        n += 1
        inner = [c for c in f.calls if c.spath == "std::io::Write::" + which and
                 any(o.kind == "param" and o.what == 1 and o.path for o in origins(f, c.args[0]))]
        ok = bool(inner) and must_pass(f, {c.bb for c in inner})
        if which == "write" and ok:
            ok = all(any(o.kind == "param" and o.what == 2 for o in origins(f, c.args[1])) for c in inner)
        r.check(ok, "%s|delegates to the wrapped writer on every success path" % p,
                "%s of a writer wrapper does not reach the wrapped writer: bytes stay in a user-space buffer (or are dropped) "
                "while the file is fsynced and published" % which, f.where())
    if n < 2:
        r.anchor_missing("crate-local io::Write wrapper impls (found %d, confirmed 2)" % n)
    # (2) every fsync of a file that is written through a BufWriter is preceded by a flush of that writer, with no write
    #     in between.  Model (M): sfa::Writer::{finish, into_inner} end with `self.writer.flush()` (sfa 1.0.0 writer.rs).
    m = 0
    for p, f in sorted(prog.fns.items()):
        syncs = [c for c in f.calls_to(A.SYNC_ALL)]
        if not syncs:
            continue
        buffered = [c for c in f.calls if any("BufWriter" in t for t in c.arg_tys)]
        if not buffered:
            continue
        flushes = [c for c in buffered if c.is_to(A.SFA_INTO_INNER, A.SFA_FINISH) or c.spath in FLUSHERS or c.sres.endswith("as std::io::Write>::flush")]
        for sc in syncs:
            m += 1
            fb = {c.bb for c in flushes}
            ok = bool(fb) and must_pass(f, fb, from_bbs=None, to_bbs=[sc.bb], success_only=False)
            r.check(ok, "%s|flush / archive-finish of the BufWriter on every path to sync_all" % p,
                    "the file is fsynced while bytes may still sit in its BufWriter", f.where(sc.bb), str([short(c.sres) for c in flushes]))
            # nothing is written between the last flush and the fsync
            late = []
            for fc in flushes:
                region = f.reach_after(fc.bb, cut_blocks=fb - {fc.bb}, stop_at=[sc.bb])
                if sc.bb not in region:
                    continue
                back = set()
                # blocks of the region from which the sync is still reachable
                for b in region:
                    if sc.bb in f.reach([b], cut_blocks=fb):
                        back.add(b)
                for c in buffered:
                    mut_access = any("BufWriter" in t and t.startswith("&mut") for t in c.arg_tys)
                    if mut_access and c.bb in back and c.bb != sc.bb and c.bb not in fb and c.sres.split("::")[-1] not in AFTER_FLUSH_OK:
                        late.append(short(c.sres))
            r.check(not late, "%s|nothing is written between the last flush and sync_all" % p,
                    "bytes are written into the BufWriter after its last flush and before the fsync: %s" % sorted(set(late)), f.where(sc.bb), str(sorted(set(late))))
    if m < 3:
        r.anchor_missing("fsync sites of BufWriter-backed files (found %d, confirmed 3)" % m)
    r.floor(8)
