"""C15 — drop_range and clear affect only what they name, and only for later snapshots.

Decided: C15.a–c of DESIGN.md §3. Not decided: read results for keys outside R over histories."""
from rules.engine import (LockFacts, origins, short, hir_walk, hir_expr_str, hir_sites, pat_str, success_ordered, returned_payload_origins)
from rules import anchors as A
from rules.props import c06

EXPLANATION = (
    "Static decision of the drop_range / clear clauses: (a) the containment table of OwnedBounds::contains is exactly "
    "`every key of [min,max] lies inside the bounds` (Included(s): s <= min; Excluded(s): s < min; Included(e): e >= max; "
    "Excluded(e): e > max; Unbounded: true), the drop_range strategy selects table ids only through "
    "filter(bounds.contains(key_range)) and returns Choice::Drop, inverted bounds are flagged empty and drop_range returns "
    "before taking any lock; (b) drop_range holds the major-compaction write lock and drops through drop_tables "
    "(publish then mark, C05.c); clear installs a NEW history entry through upgrade_version whose Version::new id is current "
    "id + 1 with fresh memtables, under the version write guard, so earlier snapshots keep the old entry; (c) both effects are "
    "persisted before they are visible (C02.a). Not decided: read results for keys outside the range over histories.")
KINDS = ["H", "L", "O"]
LEVEL_TEXT = ("Static operator-table / guard / lock-context analysis of drop_range and clear: a table is dropped only if its "
              "whole key range lies inside the bounds (exact comparison table), clear appends a new version instead of "
              "rewriting history. What reads return for keys outside the range over real histories is not decided.")

CONTAINS = "compaction::drop_range::OwnedBounds::contains"
EXPECT_LO = {"std::ops::Bound::Unbounded": "true", "std::ops::Bound::Included(key)": "(key.as_ref() <= range.min().as_ref())",
             "std::ops::Bound::Excluded(key)": "(key.as_ref() < range.min().as_ref())"}
EXPECT_HI = {"std::ops::Bound::Unbounded": "true", "std::ops::Bound::Included(key)": "(key.as_ref() >= range.max().as_ref())",
             "std::ops::Bound::Excluded(key)": "(key.as_ref() > range.max().as_ref())"}


def run(prog, R, tier="quick", only_rule=None):
    c15a(prog, R)
    c15b(prog, R)
    from rules.props import c02
    c02.c02a(prog, R, rid="C15.c")
    # Choice::Drop(ids) removes exactly those ids from the version (shared with C19.e)
    from rules.props import c19
    c19.c19e(prog, R, rid="C15.d")
    # snapshots taken before keep their full view: readers pin one SuperVersion, also for the blob side of a scan
    c02.c02d(prog, R, rid="C15.e")
    # "later writes are unaffected": the memtable clear() installs gets a fresh id (flush registration removes sealed
    # memtables by id)
    from rules.props import c06
    c06.c06j(prog, R, rid="C15.f")
    # "leaves every snapshot taken before it untouched": drop_range trims nothing (watermark 0), it cannot know the open snapshots
    c02.c02i(prog, R, rid="C15.g")
    # "never changes the result for keys outside R": dropping tables keeps the order of the remaining runs
    from rules.props import c07
    c07.c07a(prog, R, rid="C15.h")
    # clear / drop_range exclude compactions only if every compaction takes the (read side of the) same lock
    c06.c06f(prog, R, c06.LockFacts(prog, c06.CLASSES), rid="C15.i")
    # a snapshot taken before keeps finding its version: the version GC bound
    from rules.props import c20
    c20.c20d(prog, R, rid="C15.j")


def c15a(prog, R):
    r = R.rule("C15.a", "a table is dropped only if its whole key range lies inside the bounds", "B,K")
    h = prog.hir.get(CONTAINS)
    if h is None:
        r.anchor_missing("HIR of OwnedBounds::contains")
        return
    ms = [n for n in hir_walk(h["body"]) if n.get("k") == "match"]
    if len(ms) != 2:
        r.anchor_missing("two matches (start, end) in OwnedBounds::contains (found %d)" % len(ms))
        return
    for m, exp, side in ((ms[0], EXPECT_LO, "&self.start"), (ms[1], EXPECT_HI, "&self.end")):
        r.check(hir_expr_str(m["e"]) == side, "contains|match over %s" % side, "scrutinee is %s" % hir_expr_str(m["e"]), "")
        got = {pat_str(a["pat"]).replace("std::collections::Bound", "std::ops::Bound"): hir_expr_str(a["b"]) for a in m["arms"]}
        for pat, want in exp.items():
            r.check(got.get(pat) == want, "contains|%s %s => %s" % (side, pat.split("::")[-1], want),
                    "containment test for %s %s is `%s`, expected `%s`: a table reaching outside the range could be dropped "
                    "(or one inside kept)" % (side, pat.split("::")[-1], got.get(pat), want), "", str(got.get(pat)))
    # lower_ok gates the upper test
    sites = hir_sites(h["body"], lambda n: n.get("k") == "ret")
    ok = any(s.guard_texts() == ["!lower_ok"] and hir_expr_str(s.node.get("e")) == "false" for s in sites)
    r.check(ok, "contains|!lower_ok => false", "a failed lower-bound test no longer rejects the table", "")
    # the strategy selects only contained tables and returns Drop
    name = "<compaction::drop_range::Strategy as compaction::CompactionStrategy>::choose"
    hh = prog.hir.get(name)
    if hh is None:
        r.anchor_missing(name)
        return
    filt = [n for n in hir_walk(hh["body"]) if n.get("k") == "mcall" and n.get("m") == "filter"]
    ok = any(n["a"] and n["a"][0].get("k") == "closure" and hir_expr_str(n["a"][0]["b"]) == "self.bounds.contains(x.key_range())" for n in filt)
    r.check(ok, "%s|ids selected through filter(bounds.contains(key_range))" % name,
            "tables are selected for dropping without the containment test", "", str([hir_expr_str(n["a"][0], 80) for n in filt if n["a"]]))
    lets = {n["pat"]["n"]: hir_expr_str(n["init"], 400) for n in hir_walk(hh["body"]) if n.get("k") == "let" and n["pat"].get("k") == "bind" and "init" in n}
    drops = hir_sites(hh["body"], lambda n: n.get("k") == "call" and n.get("p") == "compaction::Choice::Drop")
    ok = bool(drops) and all(hir_expr_str(s.node["a"][0]) == "table_ids" for s in drops) and ".filter(" in lets.get("table_ids", "")
    r.check(ok, "%s|returns Choice::Drop(the filtered ids)" % name, "the dropped set is not the filtered id set", "")
    # empty / inverted bounds: flagged and returned before any lock
    f = prog.need(A.tm(A.TREE, "drop_range"))
    d = prog.hir.get(f.path)
    rets = hir_sites(d["body"], lambda n: n.get("k") == "ret")
    ok = any(s.guard_texts() == ["is_empty"] for s in rets)
    L = LockFacts(prog, c06.CLASSES)
    acq = L.acquisitions(f)
    rb = prog.hir.get("tree::Tree::range_bounds_to_owned_bounds")
    cmps = [hir_expr_str(n) for n in hir_walk(rb["body"]) if n.get("k") == "bin"] if rb else []
    cmpok = cmps == ["(lo.as_ref() > hi.as_ref())"]
    r.check(ok and cmpok and bool(acq), "%s|inverted bounds => return before locking" % f.path,
            "an inverted/empty range is no longer a no-op", f.where(), "is_empty := lo > hi: %s" % cmpok)
    r.floor(12)


def c15b(prog, R):
    r = R.rule("C15.b", "drop_range is exclusive; clear appends a new, empty version", "L,W")
    L = LockFacts(prog, c06.CLASSES)
    f = prog.need(A.tm(A.TREE, "drop_range"))
    ic = f.calls_to("tree::Tree::inner_compact")
    r.check(bool(ic) and all(("MC", "write") in L.held_at(f, c.bb, must=True) for c in ic), "%s|inner_compact under the major-compaction write lock" % f.path,
            "drop_range runs without excluding other compactions", f.where())
    # Choice::Drop is executed by drop_tables (publish, then mark)
    dc = prog.need(A.DO_COMPACTION)
    h = prog.hir.get(dc.path)
    sites = hir_sites(h["body"], lambda n: n.get("k") == "call" and n.get("p") == A.DROP_TABLES)
    ok = bool(sites) and all(any("compaction::Choice::Drop" in g for g in s.guard_texts()) for s in sites)
    r.check(ok, "%s|Choice::Drop => drop_tables" % dc.path, "a Drop choice is not executed by drop_tables", dc.where())
    for name in (A.TREE_CLEAR, A.BLOB_CLEAR):
        g = prog.need(name)
        ups = g.calls_to(A.UPGRADE)
        reps = g.calls_to(A.REPLACE_LATEST)
        r.check(bool(ups) and not reps, "%s|installs a new history entry (upgrade_version, not replace)" % name,
                "clear rewrites the latest history entry: snapshots taken before the clear lose their view", g.where())
        for u in ups:
            r.check(("VH", "write") in L.held_at(g, u.bb, must=True), "%s|under the version write guard" % name, "clear upgrades without the write guard", g.where(u.bb))
            # a compaction in flight commits with_merge on whatever version is current: if that is the cleared one, its
            # output tables (pre-clear data) re-enter the tree.  clear must exclude running compactions (finding F14)
            r.check(("MC", "write") in L.held_at(g, u.bb, must=True), "%s|under the major-compaction write lock" % name,
                    "clear publishes the empty version while a compaction may be running: the compaction's output tables are installed "
                    "into the cleared version afterwards and every cleared key is back", g.where(u.bb))
            for cb in prog.callbacks(u):
                cf = prog.fns.get(cb)
                if cf is None:
                    continue
                hh = prog.hir.get(g.path)
                news = [c for c in cf.calls if c.sres == "version::Version::new"]
                ok = False
                for c in news:
                    for o in origins(cf, c.args[0]):
                        if o.kind == "bin" and str(o.what).startswith("Add"):
                            a = o.extra
                            names = set()
                            for k_ in ("a", "b"):
                                for oo in origins(cf, a[k_]):
                                    if oo.kind == "call":
                                        names.add(oo.extra.sres)
                                        # receiver of id(): the closure parameter
                                        if oo.extra.sres == "version::Version::id" and any(x.kind == "param" and x.what == 2 for x in origins(cf, oo.extra.args[0])):
                                            ok = True
                r.check(ok, "%s|Version::new(current.version.id() + 1, ..)" % name, "the cleared version's id is not current id + 1", cf.where())
                # fresh memtables
                sto = {}
                for b in cf.blocks:
                    for st in b["stmts"]:
                        if st["k"] == "assign" and "p" in st["to"] and st["to"]["p"][-1].split(":")[0] in (".active_memtable", ".sealed_memtables"):
                            from rules.engine import origin_callees
                            sto[st["to"]["p"][-1].split(":")[0]] = origin_callees(cf, st["rv"].get("op"))
                ok = any(x.endswith("Memtable::new") for x in sto.get(".active_memtable", ())) and any("Default" in x for x in sto.get(".sealed_memtables", ()))
                r.check(ok, "%s|fresh active memtable, no sealed memtables" % name, "clear keeps old memtable contents", cf.where(), str(sto))
    r.floor(8)
