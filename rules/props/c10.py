"""C10 — corrupted bytes on disk are reported, never served as data.

Decided: no byte that can influence an open / lookup / scan result reaches the decoders without passing an
integrity check (DESIGN.md §3 C10.a–e). Not decided: that every flip is detected (hash strength)."""
import re

from rules.engine import (MustSet, must_pass, success_ordered, origins, origin_callees, short, success_cuts, witness_path,
                          describe_path, control_deps_transitive, switch_condition, error_blocks, local_uses)
from rules import anchors as A

EXPLANATION = (
    "Static decision of the integrity clauses C10.a-e: (a) table::block::Block is constructed only in Block::from_file / "
    "Block::from_reader, and in both every success path passes Checksum::check whose receiver derives from hash128(payload) "
    "and whose argument is header.checksum, before any decompression; Header::decode_from compares the recomputed header "
    "checksum and the magic on every success path; (b) blob Reader::get and Scanner::next pass an xxh3 digest128 that is "
    "compared with the checksum read from the frame on every path that yields data; (c) version recovery verifies the "
    "whole v<N> file against the checksum recorded in `current` before the first section is decoded; (d) census of every "
    "file-backed raw read in the crate: each sits in a body whose data-bearing success paths pass a check primitive, or in "
    "the frozen exemption table; (e) the block cache is filled only with blocks that came out of Block::from_file. "
    "Not decided: detection of every possible flip (hash strength, decoder robustness on inputs whose checksum matches).")
KINDS = ["P", "O", "W", "K"]
LEVEL_TEXT = ("Static must-pass-through analysis: on every control-flow path on which bytes read from a table, blob or "
              "version file can flow into a returned value, an integrity check (xxh3 checksum comparison) lies between "
              "the raw read and the return. Holds for every corruption position because no path bypasses the check; it "
              "does not decide that the hash detects every flip.")

CHECK = "checksum::Checksum::check"
HASH128 = "hash::hash128"
BLOCK = "table::block::Block"
FROM_FILE = "table::block::Block::from_file"
FROM_READER = "table::block::Block::from_reader"
DIGEST128 = re.compile(r"xxh3::Xxh3(Default)?::digest128$|Xxh3Builder.*digest128$|::digest128$")

READ_NAME = re.compile(r"(read_exact|read_u\d+|read_i\d+|from_reader|decode_from|read_to_end|Read::bytes|FileExt::read_at|"
                       r"^std::fs::read$|^file::read_exact$|Read::read$|read_to_string|buf_reader)")
FILE_TY = re.compile(r"std::fs::File|sfa::TocEntry")

RAW_READ_EXEMPT = {
    "version::recovery::get_current_version":
        "reads `current` (id + checksum of v<N>); covered through C10.c: a damaged id selects a file whose hash cannot "
        "match, a damaged checksum cannot match the intact file",
    "table::Table::list_blob_file_references":
        "not on any read path: feeds blob GC accounting only (residual risk recorded under C09)",
    "manifest::Manifest::decode_from":
        "re-reads sections of v<N> after version::recovery::recover verified the whole file (ordering checked below)",
}


def run(prog, R, tier="quick", only_rule=None):
    c10a(prog, R)
    c10b(prog, R)
    c10c(prog, R)
    c10d(prog, R)
    c10e(prog, R)
    c10f(prog, R)
    c10g(prog, R)
    # a failed checksum inside a scan reaches the caller: the per-source filter passes Err items through
    from rules.props import c02
    c02.c02k(prog, R, rid="C10.h")


def check_set(prog):
    return MustSet(prog, [CHECK, FROM_FILE, FROM_READER], "integrity-check*")


def c10a(prog, R):
    r = R.rule("C10.a", "blocks are constructed only from verified bytes", "W,P,D,O")
    cons = []
    for p, f in sorted(prog.fns.items()):
        if f.derived:
            continue   # derive(Clone) copies an already verified block
        for i, b in enumerate(f.blocks):
            if b.get("cleanup"):
                continue
            for st in b["stmts"]:
                if st["k"] == "assign" and st["rv"]["k"] == "agg" and st["rv"].get("adt") == BLOCK:
                    cons.append((f, i))
    allowed = {FROM_FILE, FROM_READER}
    for f, i in cons:
        r.check(f.path in allowed, "%s|constructs Block" % f.path,
                "table::block::Block is constructed outside the verifying constructors (unverified bytes could be decoded)",
                f.where(i))
    if len(cons) < 2:
        r.anchor_missing("Block construction sites (found %d)" % len(cons))
    for name in sorted(allowed):
        f = prog.need(name)
        chk = f.calls_to(CHECK)
        key = "%s|every success path passes Checksum::check" % name
        if not chk:
            r.bad(key, "no Checksum::check call in the block constructor", f.where())
            continue
        ok = must_pass(f, {c.bb for c in chk})
        if not ok:
            cb, ce = success_cuts(f)
            w = witness_path(f, [0], f.return_blocks(), cut_blocks=set(cb) | {c.bb for c in chk}, cut_edges=ce)
            r.bad(key, "a success path of the block constructor bypasses the checksum comparison", f.where(),
                  "path: %s" % describe_path(f, w or []))
        else:
            r.ok(key, "%d check site(s)" % len(chk))
        for c in chk:
            recv = origins(f, c.args[0])
            arg = origins(f, c.args[1])
            recv_ok = any(o.kind == "call" and o.extra.sres == "checksum::Checksum::from_raw" for o in recv)
            if recv_ok:
                fr = [o.extra for o in recv if o.kind == "call" and o.extra.sres == "checksum::Checksum::from_raw"][0]
                inner = origins(f, fr.args[0])
                recv_ok = any(o.kind == "call" and o.extra.sres == HASH128 for o in inner)
            r.check(recv_ok, "%s|check receiver = hash128(payload)" % name,
                    "the checked value is not the xxh3 hash of the payload bytes", f.where(c.bb), str(recv))
            arg_ok = any("checksum" in o.path for o in arg) and all(o.kind in ("call", "agg", "param") for o in arg)
            src_ok = any(o.kind == "call" and o.extra.sres.endswith("Header as coding::Decode>::decode_from") for o in arg)
            r.check(arg_ok and src_ok, "%s|check argument = header.checksum" % name,
                    "the expected checksum does not come from the decoded block header", f.where(c.bb), str(arg))
            # decompression only after the check
            for d in f.calls:
                if d.sres and "decompress" in d.sres:
                    ok2, why = success_ordered(f, c, d.bb)
                    r.check(ok2, "%s|check => %s" % (name, short(d.sres)), "payload is decompressed before it was verified: " + why,
                            f.where(d.bb), why)
        # the hashed bytes are the bytes that become the block payload: both derive from the same read
    # header decode: compare recomputed header checksum, magic test
    h = prog.need("<table::block::header::Header as coding::Decode>::decode_from")
    cmps = [c for c in h.calls if c.sres and re.search(r"PartialEq.*::(ne|eq)$", c.sres)]
    ck = [c for c in cmps if c.arg_tys and "checksum::Checksum" in c.arg_tys[0]]
    mg = [c for c in h.calls if c.sres and c.sres.startswith("std::array::equality::") and c.arg_tys and "[u8; 4]" in c.arg_tys[0]]
    for nm, lst in (("header checksum comparison", ck), ("magic comparison", mg)):
        key = "%s|%s on every success path" % (h.path, nm)
        if not lst:
            r.bad(key, "no %s in Header::decode_from" % nm, h.where())
            continue
        ok = must_pass(h, {c.bb for c in lst})
        used = all(any(k == "switch" for (_b, k, _p) in local_uses(h, c.dest["l"])) for c in lst)
        r.check(ok and used, key, "a success path of Header::decode_from skips the %s (or its result is not branched on)" % nm,
                h.where())
    for c in ck:
        names = origin_callees(h, c.args[0]) | origin_callees(h, c.args[1])
        want = any("ChecksummedReader" in n and n.endswith("checksum") for n in names) and any("read_u32" in n for n in names)
        r.check(want, "%s|compares against the recomputed ChecksummedReader checksum" % h.path,
                "header checksum is not compared with the checksum recomputed over the header bytes", h.where(c.bb), str(sorted(names)))
    r.floor(11)


def compare_blocks_u128(f, digest_calls):
    """Blocks with a BinaryOp Ne/Eq on u128 where one operand derives from a digest128 call, whose result feeds a switch."""
    out = set()
    dls = set()
    for c in digest_calls:
        if c.dest and "p" not in c.dest:
            dls.add(c.dest["l"])
    for i, b in enumerate(f.blocks):
        if b.get("cleanup"):
            continue
        for st in b["stmts"]:
            if st["k"] == "assign" and st["rv"]["k"] == "bin" and st["rv"]["op"] in ("Ne", "Eq"):
                ops = [st["rv"]["a"], st["rv"]["b"]]
                from_digest = False
                for op in ops:
                    for o in origins(f, op):
                        if o.kind == "call" and DIGEST128.search(o.extra.sres or ""):
                            from_digest = True
                if from_digest:
                    res = st["to"]["l"]
                    if any(k == "switch" for (_b, k, _p) in local_uses(f, res)):
                        out.add(i)
    return out


def data_returns(f):
    """Blocks through which data leaves: for Option-returning iterators the blocks assigning Some(..) to _0,
    otherwise the return blocks."""
    if f.ret_ty().startswith("std::option::Option<"):
        errs = error_blocks(f)
        out = []
        for i, b in enumerate(f.blocks):
            if b.get("cleanup") or i in errs:
                continue
            for st in b["stmts"]:
                if st["k"] == "assign" and st["to"]["l"] == 0 and "p" not in st["to"] and st["rv"]["k"] == "agg" \
                        and st["rv"].get("variant") == "Some":
                    out.append(i)
        return out
    return f.return_blocks()


def c10b(prog, R):
    r = R.rule("C10.b", "blob frames are verified before their bytes are returned", "P,D")
    for name in ("vlog::blob_file::reader::Reader::<'a>::get", "<vlog::blob_file::scanner::Scanner as std::iter::Iterator>::next"):
        f = prog.need(name)
        dig = [c for c in f.calls if c.sres and DIGEST128.search(c.sres)]
        key = "%s|digest128 compared on every data-bearing path" % name
        if not dig:
            r.bad(key, "no xxh3 digest128 in the blob read path", f.where())
            continue
        cmpb = compare_blocks_u128(f, dig)
        outs = data_returns(f)
        if not outs:
            r.anchor_missing("data-bearing returns of " + name)
            continue
        ok = bool(cmpb) and must_pass(f, cmpb, to_bbs=outs)
        if not ok:
            cb, ce = success_cuts(f)
            w = witness_path(f, [0], outs, cut_blocks=set(cb) | cmpb, cut_edges=ce)
            r.bad(key, "blob bytes can be returned without comparing their checksum", f.where(), "path: %s" % describe_path(f, w or []))
        else:
            r.ok(key, "%d compare block(s), %d data-bearing exit(s)" % (len(cmpb), len(outs)))
        # the other side of the comparison is the checksum stored in the frame (read_u128 from the frame)
        stored_ok = False
        for i in cmpb:
            for st in f.blocks[i]["stmts"]:
                if st["k"] == "assign" and st["rv"]["k"] == "bin" and st["rv"]["op"] in ("Ne", "Eq"):
                    for op in (st["rv"]["a"], st["rv"]["b"]):
                        if any("read_u128" in n for n in origin_callees(f, op)):
                            stored_ok = True
        r.check(stored_ok, "%s|compared with the checksum stored in the frame (read_u128)" % name,
                "the digest is not compared with the checksum read from the blob frame", f.where())
        # the digest covers key and value: two hasher updates precede it
        ups = [c for c in f.calls if c.sres and c.sres.endswith("::update") and "xxh3" in c.sres.lower()]
        r.check(len(ups) >= 2 and all(any(f.dominates(u.bb, d.bb) for d in dig) for u in ups),
                "%s|digest covers key and value (2 updates)" % name,
                "the blob checksum no longer covers both key and value bytes", f.where(), "%d update call(s)" % len(ups))
    r.floor(6)


def c10c(prog, R):
    r = R.rule("C10.c", "the version file is verified against `current` before it is decoded", "P")
    f = prog.need("version::recovery::recover")
    chk = f.calls_to(CHECK)
    reads = [c for c in f.calls if c.sres and (c.sres.startswith("sfa::Reader::new") or "buf_reader" in c.sres
                                                or "Toc::section" in c.sres)]
    if not reads:
        r.anchor_missing("section reads in version::recovery::recover")
    key = "%s|Checksum::check dominates every section read" % f.path
    if not chk:
        r.bad(key, "v<N> is decoded without verifying it against the checksum recorded in `current`", f.where())
    else:
        bad = [c for c in reads if not must_pass(f, {x.bb for x in chk}, to_bbs=[c.bb], success_only=True)]
        r.check(not bad, key, "a section of v<N> can be read on a path that did not pass the checksum comparison",
                f.where(bad[0].bb) if bad else "", "%d section read/open site(s)" % len(reads))
        for c in chk:
            recv = origin_callees(f, c.args[0])
            ok = HASH128 in recv and "std::fs::read" in recv
            r.check(ok, "%s|checked value = hash128(whole file)" % f.path,
                    "the verified value is not the hash of the whole version file", f.where(c.bb), str(recv))
            arg = origins(f, c.args[1])
            ok2 = any(o.kind == "call" and o.extra.sres == "version::recovery::get_current_version" for o in arg)
            r.check(ok2, "%s|expected value comes from `current`" % f.path,
                    "the expected checksum does not come from the `current` file", f.where(c.bb), str(arg))
    g = prog.need("version::recovery::get_current_version")
    names = [c.sres for c in g.calls]
    r.check(any("read_u128" in n for n in names) and any("read_u64" in n for n in names),
            "%s|reads id and checksum" % g.path, "`current` is read without its checksum field", g.where())
    # Manifest::decode_from runs only after recovery verified the file
    t = prog.need("tree::Tree::recover")
    rec = MustSet(prog, ["version::recovery::recover"], "recover*")
    rl = [c for c in t.calls if rec.call_in(c)]
    md = t.calls_to("manifest::Manifest::decode_from")
    if not rl or not md:
        r.anchor_missing("recover_levels / Manifest::decode_from in Tree::recover")
    for m in md:
        ok = any(success_ordered(t, x, m.bb)[0] for x in rl)
        r.check(ok, "%s|verified recovery => Manifest::decode_from" % t.path,
                "the manifest sections are decoded before the version file was verified", t.where(m.bb))
    r.floor(5)


def is_raw_read(c):
    if not c.sres or not READ_NAME.search(c.sres):
        return False
    if c.sres.startswith("std::fs::File::") or c.sres.endswith("::new") or c.sres.endswith("from_reader") and c.sres.startswith("sfa::"):
        return False
    tys = " ".join(c.arg_tys)
    if c.sres in ("std::fs::read", "file::read_exact"):
        return True
    return bool(FILE_TY.search(tys))


def c10d(prog, R):
    r = R.rule("C10.d", "census: every file-backed raw read is followed by an integrity check before data is returned", "W,P")
    chk = check_set(prog)
    sites = {}
    for p, f in sorted(prog.fns.items()):
        if f.derived:
            continue
        for c in f.calls:
            if is_raw_read(c):
                sites.setdefault(prog.fns.get(f.root, f).path, []).append(c)
    for root, calls in sorted(sites.items()):
        key = "%s|%d file-backed read(s)" % (root, len(calls))
        if root in (FROM_FILE, FROM_READER):
            r.ok(key + "|verifying constructor", "checked under C10.a")
            continue
        if root == "version::recovery::recover":
            r.ok(key + "|version file", "checked under C10.c")
            continue
        if root in RAW_READ_EXEMPT:
            r.ok(key + "|exempt", RAW_READ_EXEMPT[root])
            continue
        bad = None
        for c in calls:
            f = c.fn
            dig = [x for x in f.calls if x.sres and DIGEST128.search(x.sres)]
            S = chk.blocks_in(f) | compare_blocks_u128(f, dig)
            outs = data_returns(f)
            # the read itself may be the checked constructor's argument (from_reader(&mut BufReader<File>))
            if chk.call_in(c):
                continue
            if not must_pass(f, S, from_bbs=[c.bb], to_bbs=outs):
                bad = c
                break
        if bad is None:
            r.ok(key, "every data-bearing success path after each read passes a check primitive")
        else:
            r.bad(key, "bytes read from a file can reach a returned value without passing an integrity check "
                       "(read via %s)" % short(bad.sres), bad.fn.where(bad.bb))
    if len(sites) < 8:
        r.anchor_missing("file-backed read sites (found %d functions)" % len(sites))
    r.floor(8)


def c10e(prog, R):
    r = R.rule("C10.e", "the block cache is filled only with verified blocks", "D,O")
    ins = prog.all_calls("cache::Cache::insert_block")
    if not ins:
        r.anchor_missing("Cache::insert_block call sites")
    for c in ins:
        f = c.fn
        ff = f.calls_to(FROM_FILE)
        ok = False
        why = "no Block::from_file in the inserting function"
        for x in ff:
            ok, why = success_ordered(f, x, c.bb)
            if ok:
                break
        r.check(ok, "%s|Block::from_file => insert_block" % f.path,
                "a block is inserted into the cache that did not come out of the verifying constructor: " + why, f.where(c.bb), why)
        # the inserted value derives from that call
        arg = origins(f, c.args[-1])
        r.check(any(o.kind == "call" and o.extra.sres == FROM_FILE for o in arg),
                "%s|inserted block derives from Block::from_file" % f.path,
                "the cached block is not the verified one", f.where(c.bb), str(arg))
    r.floor(2)


FATE_EXEMPT = {}


def c10f(prog, R):
    """A detected corruption must reach the caller: the Result of every call that may fail an integrity check is
    propagated, returned or unwrapped — never turned into None / a default / 'iterator exhausted'."""
    from rules.engine import MaySet, result_fate, TRY_BRANCH, RESULT_ADAPTORS
    r = R.rule("C10.f", "integrity errors are propagated, never swallowed", "E")
    may = MaySet(prog, [CHECK], "may fail an integrity check")
    n = 0
    for p, f in sorted(prog.fns.items()):
        if f.derived:
            continue
        for c in f.calls:
            if not c.dest or "p" in c.dest:
                continue
            ty = f.local_ty(c.dest["l"])
            if not ty.startswith("std::result::Result<"):
                continue
            if c.path == TRY_BRANCH or c.is_to(*RESULT_ADAPTORS):
                continue
            if not may.call_in(c):
                continue
            n += 1
            fates = result_fate(f, c)
            sw = sorted(x for x in fates if x.startswith("swallowed"))
            root = prog.fns.get(f.root, f).path
            if sw and not (fates & {"propagated", "returned", "panics"}):
                if (root, c.sres) in FATE_EXEMPT:
                    r.ok("%s|drops the error of %s|exempt" % (root, short(c.sres)), FATE_EXEMPT[(root, c.sres)])
                else:
                    r.bad("%s|drops the error of %s" % (root, short(c.sres)),
                          "the result of a read that can fail its checksum is discarded (%s): a corrupted block turns into "
                          "'not found' / 'end of data' instead of an error" % ", ".join(sw), f.where(c.bb))
    r.ok("census|%d calls that may fail an integrity check" % (n // 20 * 20), "%d call sites classified" % n, nontrivial=False)
    if n < 80:
        r.anchor_missing("calls that may fail an integrity check (found %d)" % n)
    r.floor(1)


def c10g(prog, R, rid="C10.g"):
    """Whether a directory is recovered or initialised afresh is decided by the *existence* of `current` alone.  Any decision
    on its content (length, parse result) that leads to create_new turns a damaged pointer file into a silently empty tree."""
    from rules.engine import control_deps_transitive, switch_condition
    r = R.rule(rid, "an existing `current` always leads to recovery (a damaged one fails, it never means `new tree`)", "K")
    f = prog.fn("tree::Tree::open")
    if f is None:
        r.anchor_missing("tree::Tree::open")
        return
    cn = [c for c in f.calls if c.sres.endswith("Tree::create_new")]
    rc = [c for c in f.calls if c.sres.endswith("Tree::recover")]
    if not cn or not rc:
        r.anchor_missing("create_new / recover calls in Tree::open")
        return
    for c in cn:
        other = []
        n_exists = 0
        for (a, s_) in control_deps_transitive(f, c.bb):
            t = f.blocks[a]["term"]
            if t["k"] != "switch":
                continue
            for o in switch_condition(f, a):
                if o.kind == "call" and o.extra.sres.endswith("Path::try_exists"):
                    n_exists += 1
                elif o.kind == "discr" and "ControlFlow" in str(o.what):
                    pass        # the `?` of try_exists
                else:
                    other.append(repr(o))
        r.check(n_exists >= 1 and not other, "tree::Tree::open|create_new depends on try_exists(current) only",
                "Tree::open reaches create_new under a condition other than `current does not exist` (%s): a truncated or damaged "
                "pointer file would open as a fresh, empty tree" % sorted(set(other)), f.where(c.bb), str(sorted(set(other))))
    # the file whose existence is tested is the one recovery reads
    h = prog.hir.get("tree::Tree::open")
    from rules.engine import hir_walk as _w, hir_expr_str as _s
    tested = [_s(n, 160) for n in _w(h["body"]) if n.get("k") == "mcall" and n.get("m") == "try_exists"] if h else []
    r.check(any("CURRENT_VERSION_FILE" in x for x in tested), "tree::Tree::open|the tested file is CURRENT_VERSION_FILE",
            "the existence test is not on the `current` pointer file", "", str(tested))
    r.floor(2)
