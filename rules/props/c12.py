"""C12 — a table returns every item written to it through every read path.

Claimed narrowly: the structural parts C12.a–e of DESIGN.md §3. NOT decided (not applicable to this family): round-trip
equality of scans / ranged scans / point lookups for all item streams and writer settings."""
import re

from rules.engine import (hir_walk, hir_expr_str, hir_sites, pat_str, codec_skeleton, compare_skeletons, short)
from rules import anchors as A

EXPLANATION = (
    "Static decision of the structural parts of the table round-trip property: (a) written keys are never rejected by the "
    "filter - writer and reader use one hash function (C01.e), the set/probe twins of the bloom filter "
    "(Builder::set_with_hash / StandardBloomFilterReader::contains_hash) have the same probe sequence, the bit addressing of "
    "bit_array::Builder::enable_bit and BitArrayReader::get agree, and the filter header is written and read in the same "
    "layout; (b) stored metadata follows the stream (C07.c, C07.d); (c) block header codec agrees and serialized_len equals the "
    "field widths; the u8 conversions of BlockType / ValueType / CompressionType / TreeType are inverse on the listed values; "
    "(d) item codecs agree: InternalValue full / truncated / restart-key forms, KeyedBlockHandle forms, BlockHandle; (e) the index "
    "entry locates a version slab: spill_block registers (last key, last seqno), index seek skips a block iff its end key < "
    "needle or == needle with end seqno >= snapshot, Table::point_read stops after a block whose end key > key. NOT decided "
    "(outside static analysis): that scans / ranged scans / point lookups return exactly the written entries for every stream "
    "and every writer setting (prefix truncation, restart points, hash index, index partitioning are arithmetic over run-time "
    "lengths).")
KINDS = ["G", "H"]
LEVEL_TEXT = ("Static twin / codec agreement analysis: a one-sided change of a probe sequence, a bit address, a field order or "
              "an enum tag makes written data unreadable without any error and is visible by comparing the two sides of each "
              "pair. The round trip of arbitrary item streams through the block encoders (run-time length arithmetic) is "
              "explicitly not decided.")


def run(prog, R, tier="quick", only_rule=None):
    from rules.props import c01, c07
    c01.c01e(prog, R, rid="C12.a1")
    c12a(prog, R)
    c07.c07c(prog, R, rid="C12.b1")
    c07.c07d(prog, R, rid="C12.b2")
    c12c(prog, R)
    c12d(prog, R)
    c12e(prog, R)
    from rules.props import c11
    c11.c11c(prog, R, rid="C12.f")
    # a ranged scan from either end clamps every freshly loaded block on both sides
    from rules.props import c03
    c03.c03f(prog, R, rid="C12.g")
    c03.c03k(prog, R, rid="C12.h")
    c12i(prog, R)
    c12j(prog, R)


def arith_skeleton(body, drop_methods=()):
    """Ordered list of the arithmetic / control statements of a small function: let inits, assignments, loop heads."""
    out = []
    for n in hir_walk(body):
        k = n.get("k")
        if k == "let" and n["pat"].get("k") == "bind" and "init" in n:
            s = hir_expr_str(n["init"], 200)
            if not any(("." + m + "(") in s for m in drop_methods):
                out.append("let %s = %s" % (n["pat"]["n"], s))
        elif k == "assign":
            out.append("%s = %s" % (hir_expr_str(n["l"]), hir_expr_str(n["r"], 200)))
        elif k == "for":
            out.append("for %s in %s" % (pat_str(n["pat"]), hir_expr_str(n["iter"], 200)))
    return out


def c12a(prog, R, rid="C12.a"):
    r = R.rule(rid, "filter set / probe twins agree", "G")
    s = prog.hir.get("table::filter::standard_bloom::builder::Builder::set_with_hash")
    p = prog.hir.get("table::filter::standard_bloom::StandardBloomFilterReader::<'a>::contains_hash")
    if not s or not p:
        r.anchor_missing("bloom set_with_hash / contains_hash")
    else:
        a, b = arith_skeleton(s["body"]), arith_skeleton(p["body"])
        want = ["let h2 = table::filter::standard_bloom::builder::secondary_hash(h1)", "for i in std::ops::RangeInclusive::new(1, self.k as u64)",
                "let idx = (h1 % self.m as u64)", "h1 = h1.wrapping_add(h2)", "h2 = h2.wrapping_mul(i)"]
        r.check(a == b, "bloom|set_with_hash and contains_hash walk the same probe sequence",
                "the probe sequences differ: writer %s vs reader %s - written keys become invisible to point reads" % (a, b), "", str(a))
        r.check([x.replace("RangeInclusive::<Idx>", "RangeInclusive") for x in a] == want or a == want, "bloom|probe sequence = double hashing (h1 % m; h1 += h2; h2 *= i) for i in 1..=k",
                "probe sequence changed on both sides: %s" % a, "", str(a))
        sets = [hir_expr_str(n) for n in hir_walk(s["body"]) if n.get("k") == "mcall" and n.get("m") == "enable_bit"]
        gets = [hir_expr_str(n) for n in hir_walk(p["body"]) if n.get("k") == "mcall" and n.get("m") == "has_bit"]
        r.check(sets == ["self.inner.enable_bit(idx as usize)"] and gets == ["self.has_bit(idx as usize)"], "bloom|both address bit `idx`",
                "set/probe address different bits: %s / %s" % (sets, gets), "")
    e = prog.hir.get("table::filter::bit_array::builder::Builder::enable_bit")
    g = prog.hir.get("table::filter::bit_array::reader::BitArrayReader::<'a>::get")
    if not e or not g:
        r.anchor_missing("bit array enable_bit / get")
    else:
        a = [x for x in arith_skeleton(e["body"]) if x.startswith("let byte_idx") or x.startswith("let bit_idx")]
        b = [x for x in arith_skeleton(g["body"]) if x.startswith("let byte_idx") or x.startswith("let bit_idx")]
        r.check(a == b == ["let byte_idx = (idx / 8)", "let bit_idx = (idx % 8)"], "bit array|byte = idx / 8, bit = idx % 8 on both sides",
                "bit addressing differs: %s vs %s" % (a, b), "", str(a))
        f1 = prog.hir.get("table::filter::bit_array::builder::enable_bit")
        f2 = prog.hir.get("table::filter::bit_array::reader::get_bit")
        m1 = [x for x in arith_skeleton(f1["body"]) if "bit_mask" in x.split("=")[0]] if f1 else []
        m2 = [x for x in arith_skeleton(f2["body"]) if "bit_mask" in x.split("=")[0]] if f2 else []
        norm = lambda xs: [re.sub(r"table::filter::bit_array::\w+::BIT_MASK", "BIT_MASK", x) for x in xs]
        r.check(norm(m1) == norm(m2) == ["let bit_mask = (BIT_MASK >> idx)"], "bit array|mask = BIT_MASK >> bit on both sides", "masks differ: %s vs %s" % (m1, m2), "")
    # the two BIT_MASK constants are the same value: compare through MIR consts
    vals = set()
    for nm in ("table::filter::bit_array::builder::enable_bit", "table::filter::bit_array::reader::get_bit"):
        f = prog.fn(nm)
        if f:
            for b_ in f.blocks:
                for st in b_["stmts"]:
                    if st["k"] == "assign" and st["rv"]["k"] == "bin" and st["rv"]["op"] in ("Shr", "ShrUnchecked"):
                        a_ = st["rv"]["a"]
                        if a_.get("o") == "const":
                            vals.add((nm, a_.get("v")))
    r.check(len({v for (_n, v) in vals}) == 1 and len(vals) == 2, "bit array|both BIT_MASK constants are equal", "BIT_MASK values: %s" % sorted(vals), "", str(sorted(vals)))
    # filter header
    w = prog.hir.get("table::filter::standard_bloom::builder::Builder::build")
    rd = prog.hir.get("table::filter::standard_bloom::StandardBloomFilterReader::<'a>::new")
    if w and rd:
        W = [t for t in codec_skeleton(w["body"], "w") if t[0] not in ("if{", "}", "}else{")]
        Rr = [t for t in codec_skeleton(rd["body"], "r") if t[0] not in ("if{", "}", "}else{")]
        ok = [t[0] for t in W] == ["bytes", "u8", "u8", "u64", "u64", "bytes"] and [t[0] for t in Rr] == ["bytes", "u8", "u8", "u64", "u64"]
        hints_ok = [t[1] for t in W[3:5]] == ["m", "k"] and [t[1] for t in Rr[3:5]] == ["m", "k"]
        r.check(ok and hints_ok, "bloom header|build <-> new (magic, type, hash, m, k, bits)", "filter header layouts differ: %s vs %s" % (W, Rr), "")
    else:
        r.anchor_missing("bloom Builder::build / Reader::new")
    # a filter partition answers for every version of the keys it covers: its index entry is (last key, seqno 0), so that
    # the index seek (key, snapshot) - which skips an entry whose end key equals the needle and whose seqno >= snapshot -
    # never skips the partition that holds the key (block-index entries carry the real seqno because a key's versions can
    # span data blocks; a key's hash lives in exactly one filter partition)
    from rules.engine import origins
    g = prog.fn("table::writer::filter::partitioned::PartitionedFilterWriter::spill_filter_partition")
    if g is None:
        r.anchor_missing("PartitionedFilterWriter::spill_filter_partition")
    else:
        kb = [c for c in g.calls if c.sres.endswith("KeyedBlockHandle::new")]
        ok = bool(kb)
        detail = ""
        for c in kb:
            os_ = origins(g, c.args[1])
            detail = str(os_)
            ok = ok and bool(os_) and all(o.kind == "const" and str(o.what) == "0" for o in os_)
        r.check(ok, "PartitionedFilterWriter::spill_filter_partition|index entry = (last key, seqno 0)",
                "a filter partition is indexed under a non-zero seqno: a point read at a snapshot at or below it skips the "
                "partition that holds the key and the next partition's filter rejects it", g.where(), detail)
    r.floor(8)


ENUMS = ["table::block::r#type::BlockType", "value_type::ValueType", "compression::CompressionType", "TreeType", "checksum::ChecksumType"]


def c12c(prog, R):
    r = R.rule("C12.c", "block header codec and enum tags", "G")
    e = prog.hir.get("<table::block::header::Header as coding::Encode>::encode_into")
    d = prog.hir.get("<table::block::header::Header as coding::Decode>::decode_from")
    if e and d:
        ok, msg = compare_skeletons(codec_skeleton(e["body"], "w"), codec_skeleton(d["body"], "r"), ("block_type", "data_length", "uncompressed_length"))
        r.check(ok, "block header|encode_into <-> decode_from", msg, "", msg)
    else:
        r.anchor_missing("Header Encode/Decode")
    sl = prog.fn("table::block::header::Header::serialized_len")
    if sl:
        subs = [c.substs[0] for c in sorted(sl.calls, key=lambda c: (c.ln, c.bb)) if c.sres == "std::mem::size_of" and c.substs]
        r.check(sorted(subs) == sorted(["table::block::r#type::BlockType", "checksum::Checksum", "u32", "u32", "u32"]),
                "block header|serialized_len = magic + type + checksum + 3 x u32", "serialized_len sums %s" % subs, "", str(subs))
    # enum <-> u8 tables
    for path, h in sorted(prog.hir.items()):
        m = re.match(r"^<(.+) as std::convert::TryFrom<u8>>::try_from$", path)
        if not m:
            continue
        ty = m.group(1)
        inv = None
        for k2, h2 in prog.hir.items():
            if k2.endswith("<impl std::convert::From<%s> for u8>::from" % ty):
                inv = h2
        if inv is None:
            continue
        dec = {}
        for mm in [n for n in hir_walk(h["body"]) if n.get("k") == "match"]:
            for a in mm["arms"]:
                p = a["pat"]
                if p.get("k") == "lit":
                    b = hir_expr_str(a["b"])
                    mv = re.search(r"([A-Za-z0-9_:]+)\)?$", b.replace("std::result::Result::Ok(", ""))
                    dec[p.get("v")] = b.replace("std::result::Result::Ok(", "").rstrip(")").split("::")[-1]
        enc = {}
        for mm in [n for n in hir_walk(inv["body"]) if n.get("k") == "match"]:
            for a in mm["arms"]:
                enc[pat_str(a["pat"]).split("::")[-1]] = hir_expr_str(a["b"])
        if not dec or not enc:
            continue
        ok = all(enc.get(v) == k for k, v in dec.items()) and len(set(enc.values())) == len(enc)
        missing = [v for v in enc if v not in dec.values()]
        r.check(ok and not missing, "%s|TryFrom<u8> is the inverse of From<T> for u8" % ty.split("::")[-1],
                "tag tables are not inverse: decode %s vs encode %s" % (dec, enc), "", "%s" % sorted(dec.items()))
    r.floor(4)


def skel(prog, key_sub, side):
    k = [k for k in prog.hir if key_sub in k]
    if not k:
        return None
    return [t for t in codec_skeleton(prog.hir[k[0]]["body"], side)]


def flat(toks, inline=None):
    out = []
    for t in toks:
        if t[0] in ("if{", "}", "}else{", "loop{"):
            continue
        if t[0] == "codec" and inline:
            out.extend(inline)
        else:
            out.append(t)
    return out


def c12d(prog, R):
    r = R.rule("C12.d", "item codecs agree between block encoder and decoder", "G")
    bh_e = skel(prog, "BlockHandle as coding::Encode>::encode_into", "w")
    bh_d = skel(prog, "BlockHandle as coding::Decode>::decode_from", "r")
    bh_e = [t for t in (bh_e or []) if "Keyed" not in str(t)]
    if bh_e and bh_d:
        ok, msg = compare_skeletons(bh_e, bh_d, ("offset", "size"))
        r.check(ok, "BlockHandle|encode_into <-> decode_from", msg, "", msg)
    else:
        r.anchor_missing("BlockHandle codec")
    IV_E = "Encodable<()> for value::InternalValue>::"
    IV_D = "Decodable<table::data_block::DataBlockParsedItem> for value::InternalValue>::"
    pairs = [
        ("InternalValue full", IV_E + "encode_full_into", IV_D + "parse_full", None, None),
        ("InternalValue truncated", IV_E + "encode_truncated_into", IV_D + "parse_truncated", None, None),
        ("KeyedBlockHandle full", "KeyedBlockHandle as table::block::encoder::Encodable<table::block::offset::BlockOffset>>::encode_full_into",
         "KeyedBlockHandle as table::block::decoder::Decodable<table::index_block::IndexBlockParsedItem>>::parse_full", None, None),
    ]
    for name, e, d, _a, _b in pairs:
        E_, D_ = skel(prog, e, "w"), skel(prog, d, "r")
        if E_ is None or D_ is None:
            r.anchor_missing(name)
            continue
        fe, fd = flat(E_), flat(D_)
        ok = [t[0] for t in fe] == [t[0] for t in fd]
        r.check(ok and len(fe) >= 5, "%s|encoder and decoder step through the same fields" % name,
                "I/O shapes differ: writer %s vs reader %s" % ([t[0] for t in fe], [t[0] for t in fd]), "", str([t[0] for t in fe]))
    # restart-key parsers are prefixes of the full forms
    full = flat(skel(prog, IV_D + "parse_full", "r") or [])
    rk = flat(skel(prog, IV_D + "parse_restart_key", "r") or [])
    r.check(bool(rk) and [t[0] for t in full[:len(rk)]] == [t[0] for t in rk], "InternalValue restart key|prefix of the full form",
            "parse_restart_key reads %s, full form starts %s" % ([t[0] for t in rk], [t[0] for t in full[:len(rk)]]), "")
    kfull = flat(skel(prog, "KeyedBlockHandle as table::block::encoder::Encodable<table::block::offset::BlockOffset>>::encode_full_into", "w") or [],
                 inline=[("v64", "offset"), ("v32", "size")])
    krk = flat(skel(prog, "Decodable<table::index_block::IndexBlockParsedItem>>::parse_restart_key", "r") or [])
    r.check(bool(krk) and [t[0] for t in kfull] == [t[0] for t in krk], "KeyedBlockHandle restart key|same fields as the full form with the handle inlined",
            "restart key parser reads %s, writer writes %s" % ([t[0] for t in krk], [t[0] for t in kfull]), "")
    # the value part is conditional on !is_tombstone on both sides
    ef = [k for k in prog.hir if (IV_E + "encode_full_into") in k]
    df = [k for k in prog.hir if (IV_D + "parse_full") in k]
    if ef and df:
        conds_e = [hir_expr_str(n["c"]) for n in hir_walk(prog.hir[ef[0]]["body"]) if n.get("k") == "if"]
        lets_d = {n["pat"]["n"]: hir_expr_str(n["init"]) for n in hir_walk(prog.hir[df[0]]["body"]) if n.get("k") == "let" and n["pat"].get("k") == "bind" and "init" in n}
        r.check("!self.is_tombstone()" in conds_e and lets_d.get("is_value") == "!value_type.is_tombstone()",
                "InternalValue|value part present iff !is_tombstone on both sides", "conditions differ: %s vs %s" % (conds_e, lets_d.get("is_value")), "")
    r.floor(6)


def c12e(prog, R):
    r = R.rule("C12.e", "the index entry locates a version slab", "B,D")
    k = [k for k in prog.hir if k.startswith("table::index_block::iter::Iter") and k.endswith("::seek")]
    if not k:
        r.anchor_missing("index_block::Iter::seek")
    else:
        h = prog.hir[k[0]]
        arms = {}
        for m in [n for n in hir_walk(h["body"]) if n.get("k") == "match"]:
            if hir_expr_str(m["e"]) == "end_key.cmp(needle)":
                arms = {pat_str(a["pat"]).split("::")[-1]: hir_expr_str(a["b"]) for a in m["arms"]}
        r.check(arms == {"Greater": "false", "Less": "true", "Equal": "(s >= seqno)"}, "index seek|skip block iff end key < needle, or == needle and end seqno >= snapshot",
                "index seek predicate changed: %s (a block holding the visible version could be skipped)" % arms, "", str(arms))
    k = [k for k in prog.hir if k.startswith("table::index_block::iter::Iter") and k.endswith("::seek_upper")]
    if k:
        cl = [hir_expr_str(n["b"]) for n in hir_walk(prog.hir[k[0]]["body"]) if n.get("k") == "closure"]
        r.check(cl == ["(end_key <= needle)"], "index seek_upper|end_key <= needle", "upper seek predicate %s" % cl, "", str(cl))
    pr = prog.hir.get("table::Table::point_read")
    if pr:
        sites = hir_sites(pr["body"], lambda n: n.get("k") == "ret" and n.get("e") is not None and "None" in hir_expr_str(n["e"]))
        ok = any("(block_handle.end_key() > &key)" in s.guard_texts() for s in sites)
        r.check(ok, "Table::point_read|stops after a block whose end key > key", "early-out condition changed", "", str([s.guard_texts()[-1:] for s in sites]))
    r.floor(3)


def c12i(prog, R, rid="C12.i"):
    """Partitioned index / filter writers buffer their partitions and record for each one a handle (offset relative to the
    start of the partition area, size).  The offset is the running position *before* the partition, and the position advances
    by the partition's size afterwards - on every partition, not only the first two."""
    from rules.engine import origins, must_pass
    from rules.props.c07 import store_blocks
    r = R.rule(rid, "partition handles = (running offset before the partition, its size); the offset advances by that size", "D,P")
    for name, ty in (("table::writer::index::partitioned::PartitionedIndexWriter::cut_index_block", "table::writer::index::partitioned::PartitionedIndexWriter"),
                     ("table::writer::filter::partitioned::PartitionedFilterWriter::spill_filter_partition", "table::writer::filter::partitioned::PartitionedFilterWriter")):
        f = prog.fn(name)
        if f is None:
            r.anchor_missing(name)
            continue
        bh = [c for c in f.calls if c.sres.endswith("BlockHandle::new") and not c.sres.endswith("KeyedBlockHandle::new")]
        wr = [c for c in f.calls if c.sres.endswith("Block::write_into")]
        ok = bool(bh) and bool(wr)
        detail = ""
        for c in bh:
            off = origins(f, c.args[0])
            size = origins(f, c.args[1])
            detail = "offset<-%s size<-%s" % ([repr(o) for o in off], [repr(o) for o in size])
            flat = [x for a in off for x in ([a] if a.kind != "agg" else [y for sub in a.extra.get("ops", []) for y in origins(f, sub)])]
            # (flow-insensitive def-use also sees the field's own later `+=`)
            ok = ok and any(o.kind == "param" and o.what == 1 and o.path[-1:] == ("relative_file_pos",) for o in flat) and \
                all((o.kind == "param" and o.path[-1:] == ("relative_file_pos",)) or (o.kind == "bin" and str(o.what).startswith("Add")) for o in flat)
            from rules.engine import origin_callees
            ok = ok and any(x.endswith("Block::write_into") for x in origin_callees(f, c.args[1], depth=6))
        r.check(ok, "%s|handle = (self.relative_file_pos, bytes written)" % name,
                "a partition handle is not (running offset, size of the partition just written): later partitions are looked up at the "
                "wrong place", f.where(), detail)
        sb = store_blocks(f, ".relative_file_pos:%s" % ty)
        adv = bool(sb) and bool(bh) and must_pass(f, sb, from_bbs=[bh[0].bb]) and not any(f.dominates(b, bh[0].bb) and b != bh[0].bb for b in sb)
        r.check(adv, "%s|relative_file_pos advanced after the handle was taken, on every success path" % name,
                "the running offset is not advanced after each partition (or is advanced before the handle is built)", f.where())
    r.floor(4)


def c12j(prog, R, rid="C12.j"):
    """A full scan (Table::scan, the input side of every compaction) walks the data blocks sequentially and has no index to tell
    it where they end: it stops after exactly `data_block_count` blocks.  The writer side of that number is C07.c/d; here the
    reader side: the count handed to the scanner is the stored one, the first block fetched in `new` counts as one, every
    further fetch adds one, and the only exit on an exhausted block is `read_count >= block_count`."""
    r = R.rule(rid, "the full-table scanner reads exactly the stored number of data blocks", "B,K")
    sc = prog.hir.get("table::Table::scan")
    if sc is None:
        r.anchor_missing("table::Table::scan")
    else:
        lets = {n["pat"]["n"]: hir_expr_str(n["init"], 200) for n in hir_walk(sc["body"]) if n.get("k") == "let" and n["pat"].get("k") == "bind" and "init" in n}
        calls = [n for n in hir_walk(sc["body"]) if n.get("k") == "call" and (n.get("p") or "").endswith("Scanner::new")]
        ok = len(calls) == 1 and len(calls[0]["a"]) >= 2
        if ok:
            a = hir_expr_str(calls[0]["a"][1], 200)
            a = lets.get(a, a)
            ok = a.startswith("self.metadata.data_block_count.try_into()") and not any(op in a for op in (" + ", " - ", " / ", " * ", "saturating", "min(", "max("))
        r.check(ok, "table::Table::scan|Scanner::new(.., metadata.data_block_count, ..)", "the scanner's block count is not the table's stored data block count",
                "", str(lets))
    nw = prog.hir.get("table::scanner::Scanner::new")
    if nw is None:
        r.anchor_missing("table::scanner::Scanner::new")
    else:
        st = [n for n in hir_walk(nw["body"]) if n.get("k") == "struct" and n.get("p") == "table::scanner::Scanner"]
        fetch = [n for n in hir_walk(nw["body"]) if n.get("k") == "call" and (n.get("p") or "").endswith("Scanner::fetch_next_block")]
        flds = {f["n"]: hir_expr_str(f["e"]) for f in st[0]["f"]} if st else {}
        r.check(len(st) == 1 and flds.get("read_count") == str(len(fetch)) and len(fetch) == 1 and flds.get("block_count") == "block_count",
                "Scanner::new|one block fetched, read_count = 1, block_count = the parameter",
                "the scanner's initial read count does not equal the number of blocks it has fetched (or the count is altered)", "", str(flds))
    nx = prog.hir.get("<table::scanner::Scanner as std::iter::Iterator>::next")
    if nx is None:
        r.anchor_missing("Scanner::next")
    else:
        rets = hir_sites(nx["body"], lambda n: n.get("k") == "ret")
        none_rets = [s for s in rets if s.node.get("e") is None or "None" in hir_expr_str(s.node["e"])]
        stops = [s.guard_texts() for s in rets if not any("Some(item)" in g or "Result::Err" in g for g in s.guard_texts())]
        equiv = ("(self.read_count >= self.block_count)", "(self.read_count == self.block_count)", "(self.block_count <= self.read_count)",
                 "(self.block_count == self.read_count)", "!(self.read_count < self.block_count)", "!(self.block_count > self.read_count)")
        r.check(len(stops) == 1 and len(stops[0]) == 1 and stops[0][0] in equiv, "Scanner::next|the only end-of-table exit is read_count >= block_count",
                "the scanner ends the table on another condition than `read_count >= block_count`: trailing data blocks are not "
                "scanned (their entries vanish in the next compaction) or a non-data block is read", "", str(stops))
        incs = [n for n in hir_walk(nx["body"]) if n.get("k") == "assignop" and hir_expr_str(n["l"]) == "self.read_count"]
        other = [n for n in hir_walk(nx["body"]) if n.get("k") == "assign" and hir_expr_str(n["l"]) in ("self.read_count", "self.block_count")]
        fetch = hir_sites(nx["body"], lambda n: n.get("k") == "call" and (n.get("p") or "").endswith("Scanner::fetch_next_block"))
        ok = len(incs) == 1 and incs[0].get("op") == "+=" and hir_expr_str(incs[0]["r"]) == "1" and not other and len(fetch) == 1 and fetch[0].guard_texts() == []
        bc = [n for n in hir_walk(nx["body"]) if n.get("k") == "assignop" and hir_expr_str(n["l"]) == "self.block_count"]
        r.check(ok and not bc, "Scanner::next|read_count += 1 once per fetched block, block_count never written",
                "the scanner's block accounting changed: read_count is not advanced by exactly one per fetched block", "",
                "incs=%d fetch=%d" % (len(incs), len(fetch)))
    r.floor(4)
