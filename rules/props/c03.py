"""C03 — range and prefix scans are exact, ordered and consistent from both ends.

Decided: C03.a–f of DESIGN.md §3. Not decided: exactness for all bounds x layouts x next/next_back interleavings."""
from rules.engine import (hir_walk, hir_expr_str, hir_sites, pat_str, origins, short)
from rules import anchors as A

EXPLANATION = (
    "Static decision of the scan clauses: (a) the bound widening of TreeIter::create_range maps user bounds to internal bounds "
    "that cover exactly all versions of the boundary key under the internal order (user key ascending, seqno descending): "
    "lower Included(k)->Included((k, MAX)), lower Excluded(k)->Excluded((k, 0)), upper Included(k)->Included((k, 0)), upper "
    "Excluded(k)->Excluded((k, MAX)); InternalKey::cmp compares (user_key, other.seqno) with (other.user_key, self.seqno); "
    "(b) prefix_to_range / prefix_upper_range: empty prefix unbounded, lower Included(prefix), upper = increment the last byte "
    "< 255 and truncate, else unbounded; (c) pipeline shape: per-source snapshot filter, Merger, MvccStream, tombstone filter, "
    "the overlay memtable pushed into the same merge (= C02.b); (d) overlap operator tables of KeyRange::overlaps_with_bounds "
    "and Run::range_overlap_indexes (a table is skipped only if no key of it can lie in the bounds); (e) iter / first_key_value "
    "/ last_key_value / len / is_empty reach the scan only through range; (f) table::iter::Iter::next and next_back apply both "
    "bounds to every freshly created data-block reader and to the lazily initialised index iterator, RunReader advances inward "
    "with `lo < hi` on both sides. Not decided: exactness for all bounds, layouts and interleavings of next/next_back (the merge "
    "heap, block decoders and RunReader index arithmetic work on run-time lengths).")
KINDS = ["H", "T"]
LEVEL_TEXT = ("Static operator-table / pipeline-shape / both-ends-symmetry analysis of the scan path: the comparison and bound "
              "constants are compared with tables derived from the specification of the internal key order; the back-side "
              "paths, which the suite barely reaches, are checked to mirror the front-side ones. Exactness of scan results "
              "for all inputs is not decided.")

CREATE_RANGE = "range::TreeIter::create_range"


def run(prog, R, tier="quick", only_rule=None):
    c03a(prog, R)
    c03b(prog, R)
    from rules.props import c02
    c02.c02b(prog, R, rid="C03.c")
    c03d(prog, R)
    c03e(prog, R)
    c03f(prog, R)
    # the scan pins one SuperVersion, also for the blob side (necessary for "for every snapshot")
    c02.c02d(prog, R, rid="C03.g")
    # RunReader and Run::range_overlap_indexes rely on runs being sorted and disjoint, and on table key ranges being right
    from rules.props import c07
    c07.c07a(prog, R, rid="C03.h")
    c07.c07c(prog, R, rid="C03.i")
    # every entry a table scan yields, from either end and on every drain path, carries its translated seqno: the merge
    # orders versions of a key by it
    from rules.props import c14
    c14.c14c(prog, R, rid="C03.j")
    c03k(prog, R)
    c02.c02k(prog, R, rid="C03.l")


def norm_bound(p):
    return p.replace("std::collections::Bound", "std::ops::Bound")


def c03a(prog, R):
    r = R.rule("C03.a", "bound widening covers exactly all versions of the boundary keys", "B")
    h = prog.hir.get(CREATE_RANGE)
    if h is None:
        r.anchor_missing("HIR of TreeIter::create_range")
        return
    lets = {n["pat"]["n"]: n["init"] for n in hir_walk(h["body"]) if n.get("k") == "let" and n["pat"].get("k") == "bind" and "init" in n}
    exp = {
        "lo": ("range.start_bound()", {"std::ops::Bound::Included(key)": ("std::ops::Bound::Included", "u64::MAX"),
                                       "std::ops::Bound::Excluded(key)": ("std::ops::Bound::Excluded", "0"),
                                       "std::ops::Bound::Unbounded": ("std::ops::Bound::Unbounded", None)}),
        "hi": ("range.end_bound()", {"std::ops::Bound::Included(key)": ("std::ops::Bound::Included", "0"),
                                     "std::ops::Bound::Excluded(key)": ("std::ops::Bound::Excluded", "u64::MAX"),
                                     "std::ops::Bound::Unbounded": ("std::ops::Bound::Unbounded", None)}),
    }
    for name, (scrut, arms) in exp.items():
        m = lets.get(name)
        if not m or m.get("k") != "match":
            r.anchor_missing("let %s = match .. in create_range" % name)
            continue
        r.check(hir_expr_str(m["e"]) == scrut, "create_range|%s matches %s" % (name, scrut), "scrutinee %s" % hir_expr_str(m["e"]), "")
        got = {}
        for a in m["arms"]:
            b = a["b"]
            while b.get("k") == "blockx" and not b["b"].get("s") and "e" in b["b"]:
                b = b["b"]["e"]
            ctor = b.get("p") if b.get("k") in ("call", "path") else None
            seq = None
            if b.get("k") == "call" and b["a"]:
                ik = b["a"][0]
                if ik.get("k") == "call" and (ik.get("p") or "").endswith("InternalKey::new") and len(ik["a"]) >= 2:
                    seq = hir_expr_str(ik["a"][1])
                    if not hir_expr_str(ik["a"][0]).startswith("key.as_ref()"):
                        seq = "?key"
            got[norm_bound(pat_str(a["pat"]))] = (norm_bound(ctor or ""), seq)
        for pat, (wctor, wseq) in arms.items():
            g = got.get(pat)
            wseq_n = wseq
            gseq = g[1] if g else None
            if gseq in ("core::num::<impl u64>::MAX", "std::u64::MAX", "u64::MAX", "core::u64::MAX", "seqno::SeqNo::MAX", "value::SeqNo::MAX", "SeqNo::MAX"):
                gseq = "u64::MAX"
            ok = g is not None and g[0] == wctor and gseq == wseq_n
            r.check(ok, "create_range|%s %s => %s(key, %s)" % (name, pat.split("::")[-1], wctor.split("::")[-1], wseq),
                    "the internal %s bound for %s is %s: with (user key asc, seqno desc) order it must be %s((key, %s)) to cover "
                    "exactly all versions of the boundary key" % (name, pat.split("::")[-1], g, wctor.split("::")[-1], wseq), "", str(g))
    # internal key order
    c = prog.hir.get("<key::InternalKey as std::cmp::Ord>::cmp")
    s = hir_expr_str(c["body"], 200) if c else ""
    r.check(s == "(&self.user_key, other.seqno).cmp(&(&other.user_key, self.seqno))", "InternalKey::cmp|user key ascending, seqno descending",
            "the internal key order changed: %s" % s, "", s)
    r.floor(9)


def c03b(prog, R):
    r = R.rule("C03.b", "prefix scans use the tightest covering range", "B")
    h = prog.hir.get("range::prefix_to_range")
    u = prog.hir.get("range::prefix_upper_range")
    if not h or not u:
        r.anchor_missing("prefix_to_range / prefix_upper_range")
        return
    rets = hir_sites(h["body"], lambda n: n.get("k") == "ret")
    ok = any(s.guard_texts() == ["prefix.is_empty()"] and norm_bound(hir_expr_str(s.node["e"])) == "(std::ops::Bound::Unbounded, std::ops::Bound::Unbounded)" for s in rets)
    r.check(ok, "prefix_to_range|empty prefix => (Unbounded, Unbounded)", "empty prefix no longer scans everything", "")
    tail = norm_bound(hir_expr_str(h["body"]["b"].get("e"), 200))
    r.check(tail == "(std::ops::Bound::Included(prefix.into()), range::prefix_upper_range(prefix))", "prefix_to_range|(Included(prefix), upper(prefix))",
            "prefix range is %s" % tail, "", tail)
    ifs = hir_sites(u["body"], lambda n: n.get("k") == "ret")
    ok = any("(*byte < 255)" in s.guard_texts() and norm_bound(hir_expr_str(s.node["e"])) == "std::ops::Bound::Excluded(end.into())" for s in ifs)
    r.check(ok, "prefix_upper_range|first byte < 255 from the back => Excluded(incremented, truncated)", "upper bound construction changed", "")
    fors = [n for n in hir_walk(u["body"]) if n.get("k") == "for"]
    ok = bool(fors) and hir_expr_str(fors[0]["iter"]) == "end.iter_mut().rev().enumerate()"
    r.check(ok, "prefix_upper_range|scans from the last byte", "upper bound scan direction changed", "", str([hir_expr_str(n["iter"]) for n in fors]))
    ops = [hir_expr_str(n) for n in hir_walk(u["body"]) if n.get("k") in ("assignop",)] + \
          [hir_expr_str(n) for n in hir_walk(u["body"]) if n.get("k") == "mcall" and n.get("m") == "truncate"]
    ok = any("end.truncate((idx + 1))" == o for o in ops) and any(n.get("k") == "assignop" and n["op"] == "+=" and hir_expr_str(n["l"]) == "*byte"
                                                               and hir_expr_str(n["r"]) == "1" for n in hir_walk(u["body"]))
    r.check(ok, "prefix_upper_range|*byte += 1; truncate(idx + 1)", "increment / truncate changed", "", str(ops))
    tail = norm_bound(hir_expr_str(u["body"]["b"].get("e"), 80))
    r.check(tail == "std::ops::Bound::Unbounded", "prefix_upper_range|all bytes 255 => Unbounded", "fallback is %s" % tail, "", tail)
    r.floor(6)


EXP_OVERLAP = {
    # (which bound var, pattern) -> comparison
    ("lo", "Included"): "(key <= my_hi)", ("lo", "Excluded"): "(key < my_hi)",
    ("hi", "Included"): "(key >= my_lo)", ("hi", "Excluded"): "(key > my_lo)",
}


def c03d(prog, R):
    r = R.rule("C03.d", "a table is skipped only if no key of it can lie in the bounds (overlap operator tables)", "B")
    h = prog.hir.get("key_range::KeyRange::overlaps_with_bounds")
    if not h:
        r.anchor_missing("KeyRange::overlaps_with_bounds")
        return
    ms = [n for n in hir_walk(h["body"]) if n.get("k") == "match" and hir_expr_str(n["e"]) in ("lo", "hi")]
    r.check(len(ms) == 4, "overlaps_with_bounds|4 matches over lo/hi", "found %d" % len(ms), "")
    for m in ms:
        var = hir_expr_str(m["e"])
        for a in m["arms"]:
            p = pat_str(a["pat"]).split("::")[-1]
            kind = p.split("(")[0]
            if kind in ("Included", "Excluded"):
                want = EXP_OVERLAP[(var, kind)]
                got = hir_expr_str(a["b"])
                r.check(got == want, "overlaps_with_bounds|%s %s => %s" % (var, kind, want), "overlap test for %s %s is %s" % (var, kind, got), "", got)
    tail = hir_expr_str(h["body"]["b"].get("e"))
    r.check(tail == "(lo_included && hi_included)", "overlaps_with_bounds|both sides must hold", "result is %s" % tail, "", tail)
    lets = {n["pat"] and pat_str(n["pat"]): hir_expr_str(n["init"]) for n in hir_walk(h["body"]) if n.get("k") == "let" and "init" in n}
    r.check(lets.get("(my_lo, my_hi)") == "self.as_tuple()", "overlaps_with_bounds|(my_lo, my_hi) = (min, max)", "tuple binding changed: %s" % lets, "")
    at = prog.hir.get("key_range::KeyRange::as_tuple")
    # run partition points
    key = next((k for k in prog.hir if k.startswith("version::run::Run") and k.endswith("::range_overlap_indexes")), None)
    if not key:
        r.anchor_missing("Run::range_overlap_indexes")
        return
    hh = prog.hir[key]
    lets = {n["pat"]["n"]: n["init"] for n in hir_walk(hh["body"]) if n.get("k") == "let" and n["pat"].get("k") == "bind" and "init" in n}
    want_lo = {"Included(start_key)": "(x.key_range().max() < start_key)", "Excluded(start_key)": "(x.key_range().max() <= start_key)"}
    want_hi = {"Included(end_key)": "(x.key_range().min() <= end_key)", "Excluded(end_key)": "(x.key_range().min() < end_key)"}
    for name, want in (("lo", want_lo), ("hi", want_hi)):
        m = lets.get(name)
        if not m or m.get("k") != "match":
            r.anchor_missing("let %s = match in range_overlap_indexes" % name)
            continue
        for a in m["arms"]:
            p = pat_str(a["pat"]).split("::")[-1]
            if p in want:
                pp = [hir_expr_str(c["a"][0]["b"]) for c in hir_walk(a["b"]) if c.get("k") == "mcall" and c.get("m") == "partition_point"
                      and c["a"] and c["a"][0].get("k") == "closure"]
                r.check(pp == [want[p]], "range_overlap_indexes|%s %s => partition_point%s" % (name, p.split("(")[0], want[p]),
                        "partition predicate for %s %s is %s" % (name, p, pp), "", str(pp))
    t = prog.hir.get("table::Table::check_key_range_overlap")
    s = hir_expr_str(t["body"], 200) if t else ""
    r.check(s == "self.metadata.key_range.overlaps_with_bounds(bounds)", "Table::check_key_range_overlap|delegates to overlaps_with_bounds", "changed: %s" % s, "", s)
    r.floor(14)


def c03e(prog, R):
    r = R.rule("C03.e", "derived queries reach the scan only through range", "G")
    T = "abstract_tree::AbstractTree::"
    exp = {
        "iter": lambda s: s.startswith("self.range(") and "std::ops::RangeFull" in s or s.startswith("self.range("),
        "first_key_value": lambda s: s == "self.iter(seqno, index).next()",
        "last_key_value": lambda s: s == "self.iter(seqno, index).next_back()",
    }
    for m, pred in exp.items():
        h = prog.hir.get(T + m)
        s = hir_expr_str(h["body"], 200) if h else ""
        r.check(bool(h) and pred(s), "AbstractTree::%s|defined through range / iter" % m, "%s is now `%s`" % (m, s), "", s)
    h = prog.hir.get(T + "len")
    fors = [hir_expr_str(n["iter"]) for n in hir_walk(h["body"]) if n.get("k") == "for"] if h else []
    r.check(fors == ["self.iter(seqno, index)"], "AbstractTree::len|counts self.iter(seqno, index)", "len iterates %s" % fors, "", str(fors))
    h = prog.hir.get(T + "is_empty")
    calls = [n.get("m") for n in hir_walk(h["body"]) if n.get("k") == "mcall"] if h else []
    r.check("first_key_value" in calls and "is_none" in calls, "AbstractTree::is_empty|first_key_value(..).is_none()", "is_empty calls %s" % calls, "", str(calls))
    # BlobTree does not override them; Tree::range / prefix build on create_internal_range
    for ty in (A.TREE, A.BLOBTREE):
        for m in ("range", "prefix"):
            f = prog.need(A.tm(ty, m))
            ok = any(c.sres and (c.sres.endswith("Tree::create_internal_range") or c.sres.endswith("Tree::create_range") or c.sres.endswith("Tree::create_prefix"))
                     for g in prog.family(f) for c in g.calls)
            r.check(ok, "%s|built on create_internal_range" % f.path, "%s no longer goes through create_internal_range" % f.path, f.where())
    r.floor(9)


def c03f(prog, R, rid="C03.f"):
    r = R.rule(rid, "both scan directions apply both bounds to every fresh reader", "K,P")
    for name in ("<table::iter::Iter as std::iter::Iterator>::next", "<table::iter::Iter as std::iter::DoubleEndedIterator>::next_back"):
        h = prog.hir.get(name)
        if not h:
            r.anchor_missing(name)
            continue
        lo = hir_sites(h["body"], lambda n: n.get("k") == "mcall" and n.get("m") == "seek_lower_bound")
        hi = hir_sites(h["body"], lambda n: n.get("k") == "mcall" and n.get("m") == "seek_upper_bound")
        # the only condition (beyond those under which the reader itself is created) is "this bound exists": any further
        # condition (first block only, index type, ...) leaves some fresh reader unclamped
        cr = hir_sites(h["body"], lambda n: n.get("k") == "call" and (n.get("p") or "").endswith("create_data_block_reader"))
        cg = cr[0].guard_texts() if len(cr) == 1 else None

        def only(site, fld):
            extra = [g for g in site.guard_texts() if g not in (cg or [])]
            return len(extra) == 1 and extra[0].startswith("let ") and extra[0].endswith("= &self.range.%s" % fld)
        ok = cg is not None and len(lo) == 1 and len(hi) == 1 and only(lo[0], "0") and only(hi[0], "1")
        r.check(ok, "%s|fresh data-block reader gets seek_lower_bound(range.0) and seek_upper_bound(range.1)" % name,
                "a freshly loaded data block is not clamped on both sides in this direction: items outside the range are yielded "
                "when next and next_back are mixed", "", "%d lower / %d upper" % (len(lo), len(hi)))
        # both before the first read of the reader
        rd = hir_sites(h["body"], lambda n: n.get("k") == "mcall" and n.get("m") in ("next", "next_back") and hir_expr_str(n["r"]) == "reader")
        ok = bool(rd) and bool(lo) and bool(hi)
        for s in rd:
            before_nodes = [m for b in s.before for m in hir_walk(b)]
            ok = ok and any(m is lo[0].node for m in before_nodes) and any(m is hi[0].node for m in before_nodes)
        r.check(ok, "%s|bounds applied before the reader's first item" % name, "the reader is read before both bounds were applied", "")
        il = hir_sites(h["body"], lambda n: n.get("k") == "mcall" and n.get("m") == "seek_lower" and "index_iter" in hir_expr_str(n["r"]))
        iu = hir_sites(h["body"], lambda n: n.get("k") == "mcall" and n.get("m") == "seek_upper" and "index_iter" in hir_expr_str(n["r"]))
        def _only(site, fld):
            # exactly: not yet initialised, (the lower seek succeeded,) and this bound exists - no further condition
            gs = site.guard_texts()
            rest = [g for g in gs if g not in ("!self.index_initialized", "ok")]
            return "!self.index_initialized" in gs and len(rest) == 1 and rest[0].startswith("let ") and rest[0].endswith("= &self.range.%s" % fld)
        ok = len(il) == 1 and len(iu) == 1 and _only(il[0], "0") and _only(iu[0], "1")
        r.check(ok, "%s|lazily initialised index iterator gets seek_lower / seek_upper" % name,
                "the index iterator is not clamped by both bounds when initialised from this direction", "")
    # RunReader
    for name, fld in (("<run_reader::RunReader as std::iter::Iterator>::next", "lo"), ("<run_reader::RunReader as std::iter::DoubleEndedIterator>::next_back", "hi")):
        h = prog.hir.get(name)
        if not h:
            r.anchor_missing(name)
            continue
        cond = [hir_expr_str(n["c"]) for n in hir_walk(h["body"]) if n.get("k") == "if" and n["c"].get("k") == "bin"]
        r.check(cond == ["(self.lo < self.hi)"], "%s|advances inward while lo < hi" % name, "advance condition is %s" % cond, "", str(cond))
        steps = [hir_expr_str(n) for n in hir_walk(h["body"]) if n.get("k") == "assignop"]
        want = "assignop"
        ok = any(n.get("k") == "assignop" and hir_expr_str(n["l"]) == "self." + fld and n["op"] == ("+=" if fld == "lo" else "-=") and hir_expr_str(n["r"]) == "1"
                 for n in hir_walk(h["body"]))
        r.check(ok, "%s|self.%s %s 1" % (name, fld, "+=" if fld == "lo" else "-="), "step changed", "")
    # the two block-index iterators with lazy inner iterators apply stored bounds in both directions
    for ty in ("table::block_index::volatile::Iter", "table::block_index::two_level::Iter"):
        for m, tr in (("next", "std::iter::Iterator"), ("next_back", "std::iter::DoubleEndedIterator")):
            nm = "<%s as %s>::%s" % (ty, tr, m)
            h = prog.hir.get(nm)
            if not h:
                r.anchor_missing(nm)
                continue
            sl = [n for n in hir_walk(h["body"]) if n.get("k") == "mcall" and n.get("m") in ("seek_lower", "seek")]
            su = [n for n in hir_walk(h["body"]) if n.get("k") == "mcall" and n.get("m") == "seek_upper"]
            r.check(bool(sl) and bool(su), "%s|fresh inner iterator gets both stored bounds" % nm,
                    "a freshly loaded index block is not clamped on both sides in this direction", "", "%d lower / %d upper seeks" % (len(sl), len(su)))
    # the double-ended peekable under MvccStream: front operations fall back to the back slot and vice versa, and
    # next_if sees exactly what next() sees
    DP = "double_ended_peekable::DoubleEndedPeekable::<T, I>::"
    def body(name):
        k = [k for k in prog.hir if k.endswith(name) and "DoubleEndedPeekable" in k]
        return prog.hir[k[0]]["body"] if k else None
    nx, nb = body("as std::iter::Iterator>::next"), body("as std::iter::DoubleEndedIterator>::next_back")
    pk, pb, ni = body("::peek"), body("::peek_back"), body("::next_if")
    if not all([nx, nb, pk, pb, ni]):
        r.anchor_missing("DoubleEndedPeekable next / next_back / peek / peek_back / next_if")
    else:
        def count(b, txt):
            return sum(1 for n in hir_walk(b) if n.get("k") == "mcall" and hir_expr_str(n) == txt)
        r.check(count(nx, "self.back.take().into_peeked_value()") == 2, "DoubleEndedPeekable::next|falls back to the back slot when the front / inner iterator is exhausted",
                "next() no longer drains the back peek slot", "")
        r.check(count(nb, "self.front.take().into_peeked_value()") == 2, "DoubleEndedPeekable::next_back|falls back to the front slot",
                "next_back() no longer drains the front peek slot", "")
        r.check(any(hir_expr_str(n) == "self.back.peeked_value_ref()" for n in hir_walk(pk)), "DoubleEndedPeekable::peek|falls back to the back slot",
                "peek() ignores an item parked in the back slot", "")
        r.check(any(hir_expr_str(n) == "self.front.peeked_value_ref()" for n in hir_walk(pb)), "DoubleEndedPeekable::peek_back|falls back to the front slot",
                "peek_back() ignores an item parked in the front slot", "")
        ms = [n for n in hir_walk(ni) if n.get("k") == "match"]
        r.check(bool(ms) and hir_expr_str(ms[0]["e"]) == "self.next()", "DoubleEndedPeekable::next_if|defined through next()",
                "next_if no longer takes its item through next(): it misses an item parked in the back slot, so when both ends of "
                "a scan meet inside one key's versions the old version is not drained and surfaces as a duplicate", "",
                str([hir_expr_str(m["e"]) for m in ms]))
    r.floor(19)


MIRRORED = ["table::block_index::two_level::Iter", "table::block_index::volatile::Iter", "table::block_index::full::Iter",
            "table::block_index::BlockIndexIterImpl", "table::iter::Iter", "run_reader::RunReader", "merge::Merger<I>",
            "double_ended_peekable::DoubleEndedPeekable<T, I>"]
NOT_MIRRORED = {
    "mvcc_stream::MvccStream<I>": "newest-version selection is direction dependent (front: first of the key, back: last before the key changes)",
    "table::block::decoder::Decoder<'_, Item, Parsed>": "reverse scan walks a restart-interval stack; forward scan decodes in place",
}


def c03k(prog, R, rid="C03.k"):
    """`consistent from both ends`: in every double-ended iterator of the read path, next_back is the mirror image of next
    (lo <-> hi, front <-> back, next <-> next_back): same steps in the same order, in particular the hand-over to the buffer
    the *other* end has already loaded happens, and happens only after the own side and the index are exhausted."""
    from rules.engine import mirror_diff
    r = R.rule(rid, "next_back is the mirror image of next in every double-ended iterator of the read path", "G")
    for ty in MIRRORED:
        d = mirror_diff(prog, ty)
        if d == "missing":
            r.anchor_missing("next / next_back of " + ty)
            continue
        r.check(d is None, "%s|next (mirrored) == next_back" % ty,
                "the two directions of %s are no longer mirror images (%s): items are skipped, duplicated or reordered when a scan "
                "is consumed from both ends" % (ty, d), "", d or "")
    # and the forward direction itself hands over to the buffer the back side has loaded only after its own buffer and
    # the index are exhausted (a change applied symmetrically to both directions would keep them mirror images)
    from rules.engine import event_skeleton
    for ty, own, index_step, other in (("table::block_index::two_level::Iter", "letx:self.lo_consumer", "letx:self.tli", "letx:self.hi_consumer"),
                                       ("table::iter::Iter", "letx:self.lo_data_block", "call:self.index_iter.next", "letx:self.hi_data_block")):
        h = prog.hir.get("<%s as std::iter::Iterator>::next" % ty)
        if not h:
            continue
        ev = event_skeleton(h["body"])
        pos = {k: (ev.index(k) if k in ev else None) for k in (own, index_step, other)}
        ok = None not in pos.values() and pos[own] < pos[index_step] < pos[other]
        r.check(ok, "%s::next|own buffer, then the index, then the other end's buffer" % ty,
                "the forward scan serves the block buffered by the back side before the blocks in between (or never): %s" % pos, "", str(pos))
    r.floor(10)

