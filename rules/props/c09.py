"""C09 — blob garbage statistics are exact and only unreferenced blob files are dropped.

Decided: C09.a–e of DESIGN.md §3 (+ the crate-wide swapped-argument rule A). Not decided: numerical exactness."""
import re

from rules.engine import (MustSet, must_pass, success_ordered, origins, origin_callees, short, hir_walk, hir_expr_str,
                          hir_sites, codec_skeleton, compare_skeletons, split_sections, fn_param_names, hir_tail_name,
                          strip_generics, returned_payload_origins)
from rules import anchors as A
from rules.stream_rules import StreamModel

EXPLANATION = (
    "Static decision of the blob-GC accounting clauses: (a) every body that accumulates into one of the fields "
    "{len, bytes, on_disk_bytes} of FragmentationEntry / LinkedFile accumulates into all three (field completeness on MIR "
    "stores whose value derives from an Add of the same field); (b) in CompactionStream::next the Replace and Drop arms of "
    "the filter verdict report the old entry through on_dropped before it is modified / discarded, drain_key reports every "
    "drained entry, and the only discards without a report are guarded by a tombstone test (tombstones carry no pointer); "
    "merge_tables installs the callback whenever key-value separation is configured; (c) the fragmentation diff collected "
    "by the callback is the value handed to CompactionFlavour::finish and on to Version::with_merge, and with_dropped adds "
    "the dropped tables' linked blob files; (d) BlobFile::is_dead requires `stale.len == item_count` (every blob of the file is garbage; bytes alone do not show that), both "
    "finishers collect the dead blob files of the current version before upgrading, and gc stats are pruned after the "
    "blob-file list changed; (e) the gc-stats and linked-blob-file codecs agree field by field between writer and reader; "
    "(A) crate-wide: no call passes identically named arguments in permuted positions. Not decided: numeric exactness of "
    "the statistics over histories.")
KINDS = ["F", "G", "A", "H"]
LEVEL_TEXT = ("Static field-completeness, callback-coverage, def-use and codec-agreement analysis of the blob garbage "
              "accounting: a forgotten field or a dropped pointer that is not reported is visible in the shape of the code "
              "for all histories at once. Numeric exactness of the statistics is not decided.")

GROUPS = {
    "blob_tree::gc::FragmentationEntry": ("len", "bytes", "on_disk_bytes"),
    "table::writer::LinkedFile": ("len", "bytes", "on_disk_bytes"),
}


def run(prog, R, tier="quick", only_rule=None):
    c09a(prog, R)
    c09b(prog, R)
    c09c(prog, R)
    c09d(prog, R)
    c09e(prog, R)
    rule_a(prog, R, "C09.A")
    # the link of a pointer is credited to the table that holds it (write, then register)
    from rules.props import c08
    c08.c08d(prog, R, rid="C09.g")
    c09h(prog, R)
    # "... and later the disk, exactly when nothing points into it": marks only after the version without the file is published
    from rules.props import c05
    c05.c05c(prog, R, rid="C09.i")
    c09j(prog, R)
    # a blob file is rewritten / dropped only if no table outside the compaction points into it (shared with C08.f)
    c08.c08f(prog, R, rid="C09.l")


def c09h(prog, R):
    """Who references a blob file is read from the tables' link sections; if that read fails the answer is unknown, not
    `nobody`: every consumer must propagate the error (a swallowed error makes a referenced file look unreferenced: it is
    rewritten / dropped while a table still points into it, or its garbage is not accounted)."""
    from rules.engine import result_fate, TRY_BRANCH
    r = R.rule("C09.h", "a failed read of a table's blob links is never taken for `no links`", "E")
    n = 0
    for p, f in sorted(prog.fns.items()):
        if f.derived:
            continue
        for c in f.calls:
            if c.sres != "table::Table::list_blob_file_references" or not c.dest:
                continue
            n += 1
            fates = result_fate(f, c)
            sw = sorted(x for x in fates if x.startswith("swallowed"))
            ok = not sw or bool(fates & {"propagated", "returned", "panics"})
            r.check(ok, "%s|propagates the error of list_blob_file_references" % prog.fns.get(f.root, f).path,
                    "the error of reading a table's blob links is dropped (%s) and the table is treated as referencing nothing"
                    % ", ".join(sw), f.where(c.bb), str(sorted(fates)))
    if n < 3:
        r.anchor_missing("list_blob_file_references call sites (found %d, confirmed 3)" % n)
    r.floor(3)


def accumulated_fields(f, adt):
    """Fields of `adt` that this body accumulates into: stores to place .field:adt whose value derives from an Add
    over the same field."""
    out = set()
    tag = ":" + adt
    for b in f.blocks:
        if b.get("cleanup"):
            continue
        for st in b["stmts"]:
            if st["k"] != "assign" or "p" not in st["to"]:
                continue
            last = st["to"]["p"][-1]
            if not (last.startswith(".") and last.endswith(tag)):
                continue
            fld = last[1:].split(":")[0]
            rv = st["rv"]
            srcs = []
            if rv["k"] in ("use", "cast"):
                srcs = origins(f, rv["op"])
            elif rv["k"] == "bin":
                srcs = [type("O", (), {"kind": "bin", "what": rv["op"], "extra": rv})()]
            for o in srcs:
                if o.kind == "bin" and str(o.what).startswith("Add"):
                    out.add(fld)
    return out


def c09a(prog, R):
    r = R.rule("C09.a", "accumulations into blob accounting records are field-complete", "F")
    n = 0
    for adt, fields in GROUPS.items():
        if adt not in prog.adts:
            r.anchor_missing("struct " + adt)
            continue
        have = tuple(fd["name"] for fd in prog.adts[adt]["variants"][0]["fields"])
        group = tuple(x for x in have if x in fields)
        if set(group) != set(fields):
            r.anchor_missing("fields %s of %s (has %s)" % (fields, adt, have))
            continue
        for p, f in sorted(prog.fns.items()):
            if f.derived:
                continue
            acc = accumulated_fields(f, adt)
            if not acc:
                continue
            n += 1
            missing = [x for x in fields if x not in acc]
            r.check(not missing, "%s|accumulates all of %s.{%s}" % (p, adt.split("::")[-1], ",".join(fields)),
                    "accumulates %s but not %s: the record becomes inconsistent (e.g. stale bytes no longer add up)"
                    % (sorted(acc), missing), f.where(), "accumulated: %s" % sorted(acc))
    r.floor(4)


def c09b(prog, R):
    r = R.rule("C09.b", "every dropped or replaced pointer is reported to the GC callback", "K,P")
    sm = StreamModel(prog)
    # filter arms
    assigns = sm.sites(lambda n: n.get("k") == "assign")
    for arm in ("Replace", "Drop"):
        pat = "compaction::stream::StreamFilterVerdict::%s" % arm
        in_arm = [s for s in sm.sites_all if any(t.endswith("~ " + pat) or ("~ " + pat + "(") in t for t in sm.guards(s))]
        if not in_arm:
            r.anchor_missing("match arm StreamFilterVerdict::%s in CompactionStream::next" % arm)
            continue
        cbs = [s for s in in_arm if s.node.get("k") == "mcall" and s.node.get("m") == "on_dropped"
               and [sm.norm(hir_expr_str(a)) for a in s.node["a"]] == ["&HEAD"]]
        r.check(bool(cbs), "%s|%s arm calls on_dropped(&head)" % (sm.path, arm),
                "the %s verdict no longer reports the old entry to the GC callback (its blob stays accounted as live)" % arm,
                sm.fn.where() if sm.fn else "")
        if arm == "Replace":
            mods = [s for s in in_arm if s.node.get("k") == "assign" and sm.norm(hir_expr_str(s.node["l"])).startswith("HEAD.")]
            ok = bool(mods) and all(sm.before_has_call(s, "on_dropped", "&HEAD") for s in mods)
            r.check(ok, "%s|Replace arm reports before it overwrites head" % sm.path,
                    "head is overwritten before on_dropped(&head) ran (the callback would see the new value)", "",
                    "%d write(s) to head in the arm" % len(mods))
        else:
            cont = [s for s in in_arm if s.node.get("k") == "continue"]
            ok = bool(cont) and all(sm.before_has_call(s, "on_dropped", "&HEAD") for s in cont)
            r.check(ok, "%s|Drop arm reports before it discards" % sm.path,
                    "the Drop verdict discards head without reporting it first", "")
    # discards without a report are tombstones
    for s in sm.discards():
        cls = sm.classify_discard(s)
        key = "%s|discard[%s] %s" % (sm.path, cls, " & ".join(sm.guards(s))[-150:])
        if cls == "filter-drop":
            continue
        if cls == "weak-annihilation":
            # the value beneath the weak tombstone is dropped here: it must be reported
            r.check(sm.before_has_call(s, "on_dropped", "&dropped"), key + "|reports the value it consumes",
                    "the value removed together with a weak tombstone is not reported to the GC callback", "")
            continue
        r.check(cls in ("tombstone-eviction", "weak-annihilation"), key,
                "an entry is discarded without on_dropped and without a tombstone guard (a value pointer would leak from "
                "the accounting)", "")
    # drain_key reports every drained item
    cb = [s for s in hir_sites(sm.drain_body, lambda n: n.get("k") == "mcall" and n.get("m") == "on_dropped")]
    ok = False
    for s in cb:
        g = s.guard_texts()
        ok = ok or any("expired" == x for x in g)
    defs = [hir_expr_str(n["init"], 200) for n in hir_walk(sm.drain_body) if n.get("k") == "let" and n["pat"].get("k") == "bind"
            and n["pat"]["n"] == "expired"]
    # the predicate's answer for an Ok entry is that very variable: reported <=> drained (whatever `expired` is defined as; which
    # entries may be drained is the business of C02.f / C13.d)
    returned = False
    for n in hir_walk(sm.drain_body):
        if n.get("k") == "closure":
            b = n["b"]
            while isinstance(b, dict) and b.get("k") == "blockx" and not b["b"].get("s") and "e" in b["b"]:
                b = b["b"]["e"]
            if isinstance(b, dict) and b.get("k") == "if" and isinstance(b.get("t"), dict) and b["t"].get("k") == "blockx":
                tail = b["t"]["b"].get("e")
                returned = tail is not None and hir_expr_str(tail) == "expired"
    r.check(ok and returned and len(defs) == 1 and "kv.key.user_key == key" in defs[0], "%s|drain_key reports exactly the drained entries" % sm.drain_path,
            "drain_key no longer calls on_dropped for every entry it removes (older versions' blobs leak from the accounting)",
            "", "expired := %s" % defs)
    # merge_tables installs the callback whenever kv separation is on
    mt = prog.need(A.MERGE_TABLES)
    h = prog.hir.get(A.MERGE_TABLES)
    inst = [s for s in hir_sites(h["body"], lambda n: n.get("k") == "mcall" and n.get("m") == "with_drop_callback")]
    ok = any(any("~ std::option::Option::Some(blob_opts)" in t or "Some(" in t for t in s.guard_texts()) for s in inst)
    scrut = [t for s in inst for t in s.guard_texts() if "kv_separation_opts" in t]
    r.check(bool(inst) and bool(scrut), "%s|with_drop_callback installed under Some(kv_separation_opts)" % mt.path,
            "the GC callback is no longer installed for key-value separated trees", mt.where(), str(scrut)[:200])
    r.floor(9)


def c09c(prog, R):
    r = R.rule("C09.c", "the fragmentation diff reaches the published version", "D")
    mt = prog.need(A.MERGE_TABLES)
    cbc = mt.calls_to(lambda_none) if False else [c for c in mt.calls if c.sres and c.sres.endswith("::with_drop_callback")]
    fin = [c for c in mt.calls if c.path == A.FLAVOUR_FINISH or c.sres == A.FLAVOUR_FINISH]
    if not cbc or not fin:
        r.anchor_missing("with_drop_callback / CompactionFlavour::finish in merge_tables")
    for c in cbc:
        src_cb = origins(mt, c.args[1])
        for f in fin:
            # argument index of blob_frag_map in finish: by type
            idx = [i for i, t in enumerate(f.arg_tys) if t == "blob_tree::gc::FragmentationMap"]
            if not idx:
                r.anchor_missing("FragmentationMap argument of CompactionFlavour::finish")
                continue
            src_fin = origins(mt, f.args[idx[0]])
            a = {(o.kind, str(o.what), o.bb) for o in src_cb}
            b = {(o.kind, str(o.what), o.bb) for o in src_fin}
            r.check(bool(a & b), "%s|callback target == finish(blob_frag_map)" % mt.path,
                    "the map filled by the drop callback is not the one handed to finish (the diff is lost)", mt.where(f.bb),
                    "%s vs %s" % (sorted(a)[:2], sorted(b)[:2]))
    # inside both finish impls the parameter flows into with_merge(diff)
    for name in (A.STD_FINISH, A.RELOC_FINISH):
        f = prog.need(name)
        # parameter index of the FragmentationMap
        pidx = [i for i in range(1, f.argc + 1) if f.local_ty(i) == "blob_tree::gc::FragmentationMap"]
        ok = False
        for g in prog.family(f):
            for c in g.calls_to("version::Version::with_merge"):
                for a in c.args:
                    from rules.engine import constituent_origins
                    for (gg, o) in constituent_origins(prog, g, a):
                        if gg.path == f.path and o.kind == "param" and o.what in pidx:
                            ok = True
        r.check(ok and bool(pidx), "%s|blob_frag_map parameter flows into with_merge(diff)" % name,
                "the fragmentation diff parameter no longer reaches Version::with_merge", f.where())
    # with_dropped adds the linked blob files of the dropped tables
    wd = prog.need("version::Version::with_dropped")
    fam = prog.family(wd)
    ok = any(c.sres == "table::Table::list_blob_file_references" for g in fam for c in g.calls)
    r.check(ok, "%s|adds list_blob_file_references() of dropped tables" % wd.path,
            "dropping tables no longer accounts the blobs they referenced as garbage", wd.where())
    r.floor(4)


def lambda_none(*a):
    return False


def c09d(prog, R):
    r = R.rule("C09.d", "a blob file is dead iff all its bytes are unreferenced; dead files leave at the next version change", "B,P,O")
    dead_rule(prog, r)
    c09d_rest(prog, R, r)


def dead_rule_shared(prog, R, rid):
    """The dead-file test alone, for properties that only need `a live blob file is never judged dead` (C20, C08)."""
    r = R.rule(rid, "a blob file is judged dead only when all of its bytes are unreferenced (exact integer test)", "B")
    dead_rule(prog, r)
    # every consumer of the verdict uses this predicate (no private re-implementation through the ratio)
    users = sorted({c.fn.path for c in prog.all_calls("vlog::blob_file::BlobFile::is_dead")})
    stale = sorted({c.fn.path for c in prog.all_calls("vlog::blob_file::BlobFile::is_stale")})
    r.check(len(users) >= 3, "is_dead|consulted by prune_dead, the finishers and the rewrite picker", "is_dead has %d callers" % len(users), "", str(users))
    drops = [u for u in stale if "prune" in u or "finish" in u or "with_dropped" in u]
    r.check(not drops, "is_stale|the f32 staleness ratio never decides a drop", "a dropping path consults the floating-point staleness ratio: %s" % drops, "", str(stale))
    r.floor(3)


def dead_rule(prog, r):
    """Specification, not the code, fixes the test: a blob file may leave the version exactly when *nothing* points into it,
    i.e. when every blob of the file is garbage - the number of stale blobs equals the file's item count.  Comparing bytes
    alone is not that: a blob with an empty value weighs nothing (finding F11)."""
    f = prog.need("vlog::blob_file::BlobFile::is_dead")
    h = prog.hir.get(f.path)
    cmps = [n for n in hir_walk(h["body"]) if n.get("k") == "bin" and n["op"] in ("==", "!=", "<", "<=", ">", ">=")]
    ors = [n for n in hir_walk(h["body"]) if n.get("k") == "bin" and n["op"] == "||"]
    lets = {n["pat"]["n"]: hir_expr_str(n["init"]) for n in hir_walk(h["body"]) if n.get("k") == "let" and n["pat"].get("k") == "bind"
            and "init" in n}

    def norm(x):
        x = lets.get(x, x)
        return re.sub(r" as (u64|usize|u128)$", "", x)
    count_ok = False
    other = []
    desc = []
    for c in cmps:
        l, rr = norm(hir_expr_str(c["l"])), norm(hir_expr_str(c["r"]))
        desc.append("%s %s %s" % (l, c["op"], rr))
        if c["op"] == "==" and {l, rr} == {"x.len", "self.0.meta.item_count"}:
            count_ok = True
        elif c["op"] == "==" and {l, rr} == {"x.bytes", "self.0.meta.total_uncompressed_bytes"}:
            pass      # an additional, weaker conjunct
        else:
            other.append(desc[-1])
    r.check(count_ok and not other and not ors, "%s|dead <=> every blob of the file is stale (stale.len == meta.item_count)" % f.path,
            "the dead-file test does not require that every blob of the file is garbage (%s): a file that still holds a live blob - "
            "e.g. an empty value, which weighs no bytes - is dropped from the version and unlinked while a table points into it"
            % ("; ".join(desc) or "no comparison"), f.where(), "; ".join(desc))


def c09d_rest(prog, R, r):
    # both finishers collect dead blob files of the current version before upgrading
    for name in (A.STD_FINISH, A.RELOC_FINISH):
        g = prog.need(name)
        dead = g.calls_to("vlog::blob_file::BlobFile::is_dead")
        ups = g.calls_to(A.UPGRADE, A.UPGRADE_SEQNO)
        ok = bool(dead) and bool(ups) and all(g.dominates(d.bb, u.bb) or u.bb in g.reach_after(d.bb) for d in dead for u in ups)
        # the loop head (iterator over blob_files of latest_version) dominates the upgrade
        lv = g.calls_to(A.LATEST_VERSION)
        ok = ok and bool(lv) and all(g.dominates(x.bb, u.bb) for x in lv for u in ups)
        r.check(ok, "%s|collects is_dead() blob files of the current version before upgrading" % name,
                "dead blob files are no longer collected at commit time (they would stay in the version forever)", g.where())
    # gc stats pruned after the blob file list changed (with_merge / with_new_l0_run)
    for name in ("version::Version::with_merge", "version::Version::with_new_l0_run"):
        g = prog.need(name)
        pr = g.calls_to("blob_tree::gc::FragmentationMap::prune")
        mg = g.calls_to("blob_tree::gc::FragmentationMap::merge_into")
        ok = bool(pr) and all(any(p.bb in g.reach_after(m.bb) for p in pr) for m in mg)
        r.check(ok, "%s|merge_into => prune(value_log)" % name,
                "gc stats are not pruned against the new blob-file list after the diff was merged", g.where())
    wd = prog.need("version::Version::with_dropped")
    r.check(bool(wd.calls_to("version::blob_file_list::BlobFileList::prune_dead")), "%s|prune_dead(gc_stats)" % wd.path,
            "with_dropped no longer removes blob files that became dead", wd.where())
    from rules.props import c08
    c08.with_merge_guards(prog, r)
    r.floor(10)
    # stale entries of dropped files must never attach to a new file: ids are not reused (shared clause C04.c)
    from rules.props import c04
    c04.c04c(prog, R, rid="C09.f")


def c09e(prog, R):
    r = R.rule("C09.e", "statistics survive reopen: gc-stats and linked-blob-file codecs agree", "G")
    vocab = ("len", "bytes", "on_disk_bytes")
    enc = prog.hir.get("<blob_tree::gc::FragmentationMap as coding::Encode>::encode_into")
    dec = prog.hir.get("<blob_tree::gc::FragmentationMap as coding::Decode>::decode_from")
    if not enc or not dec:
        r.anchor_missing("FragmentationMap Encode/Decode")
    else:
        ok, msg = compare_skeletons(codec_skeleton(enc["body"], "w"), codec_skeleton(dec["body"], "r"), vocab)
        r.check(ok, "FragmentationMap|encode_into <-> decode_from", msg, "", msg)
        # every entry is written (an entry without stale *bytes* still counts stale *items*: is_dead compares the item count),
        # and the count header is the map's length
        ef = prog.fn("<blob_tree::gc::FragmentationMap as coding::Encode>::encode_into")
        fam = [ef] + [g for p_, g in prog.fns.items() if p_.startswith("<blob_tree::gc::FragmentationMap as coding::Encode>::encode_into::{closure")] if ef else []
        sel = sorted({short(c.sres) for g in fam for c in g.calls
                      if re.search(r"::(filter\w*|skip\w*|take\w*|retain\w*|step_by|partition\w*)$", c.sres or "")})
        cnt_ok = False
        if ef:
            for c in ef.calls:
                if c.sres.endswith("WriteBytesExt::write_u32") or c.sres.endswith("WriteBytesExt::write_u64"):
                    if any(x.endswith("HashMap::len") for x in origin_callees(ef, c.args[1], depth=4)):
                        cnt_ok = True
        r.check(bool(ef) and not sel and cnt_ok, "FragmentationMap::encode_into|writes every entry; count = map length",
                "the persisted GC statistics leave entries out (%s) or the count header is not the map's length: the statistics "
                "differ after reopen" % (sel or "count"), "", str(sel))
        # the decoded values are passed to FragmentationEntry::new in declaration order (rule A covers the call)
    w = prog.hir.get(A.TABLE_WRITER_FINISH)
    rd = prog.hir.get("table::Table::list_blob_file_references")
    if not w or not rd:
        r.anchor_missing("Writer::finish / Table::list_blob_file_references")
    else:
        secs = split_sections(codec_skeleton(w["body"], "w"))
        e = secs.get("linked_blob_files")
        d = codec_skeleton(rd["body"], "r")
        if e is None:
            r.anchor_missing("section linked_blob_files in Writer::finish")
        else:
            ok, msg = compare_skeletons(e, d, vocab + ("blob_file_id",))
            r.check(ok, "linked_blob_files|Writer::finish <-> Table::list_blob_file_references", msg, "", msg)
    # struct literal in the reader: fields initialised from identically named locals
    if rd:
        for n in hir_walk(rd["body"]):
            if n.get("k") == "struct" and n.get("p", "").endswith("LinkedFile"):
                bad = [(x["n"], hir_tail_name(x["e"])) for x in n["f"] if hir_tail_name(x["e"]) in vocab + ("blob_file_id",)
                       and hir_tail_name(x["e"]) != x["n"]]
                r.check(not bad, "LinkedFile literal|fields initialised from same-named values", "fields crossed: %s" % bad, "")
    r.floor(3)


# --------------------------------------------------------------------------------------
# (A) argument-name agreement, crate-wide

def rule_a(prog, R, rid):
    r = R.rule(rid, "identically named arguments sit in the matching parameter positions (swapped-argument check)", "A")
    n_sites = 0
    n_named = 0
    for path, h in sorted(prog.hir.items()):
        for n in hir_walk(h["body"]):
            k = n.get("k")
            if k not in ("call", "mcall") or not n.get("p"):
                continue
            callee = n["p"]
            cf = prog.fn(callee) or prog.fn(strip_generics(callee))
            if cf is None or cf.kind == "closure":
                continue
            params = fn_param_names(prog, cf.path)
            if not params:
                continue
            args = ([n["r"]] if k == "mcall" else []) + list(n["a"])
            if len(args) != len(params) or len(params) < 2:
                continue
            n_sites += 1
            tys = [cf.local_ty(i + 1) for i in range(len(params))]
            names = [hir_tail_name(a) for a in args]
            for i, nm in enumerate(names):
                if nm is None or nm not in params or params[i] == nm:
                    continue
                j = params.index(nm)
                if j == i or tys[i] != tys[j]:
                    continue
                # `nm` is passed in position i but is the name of parameter j of the same type
                if names[j] == params[i] or names[j] not in params:
                    n_named += 1
                    r.bad("%s|call %s: argument `%s` in the position of parameter `%s`" % (path, short(callee), nm, params[i]),
                          "an argument named like parameter `%s` is passed as parameter `%s` (same type %s): swapped arguments"
                          % (nm, params[i], tys[i]), "%s line %s" % (path, n.get("ln")))
    r.ok("census|%d call sites with named parameters checked" % (n_sites // 100 * 100), "%d call sites" % n_sites, nontrivial=False)
    if n_sites < 600:
        r.anchor_missing("call sites for the argument-name rule (found %d)" % n_sites)
    # positive witnesses that the rule sees the calls it is meant for
    want = ["blob_tree::gc::FragmentationEntry::new", "table::writer::Writer::link_blob_file", "table::Table::recover"]
    for w in want:
        hit = False
        for path, h in prog.hir.items():
            for n in hir_walk(h["body"]):
                if n.get("k") in ("call", "mcall") and strip_generics(n.get("p") or "") == w:
                    hit = True
        r.check(hit and fn_param_names(prog, w) is not None, "witness|%s call sites visible with parameter names" % short(w),
                "the argument-name rule cannot see calls of %s" % w, "")
    r.floor(4)


def c09j(prog, R, rid="C09.j"):
    """The dead test compares garbage with the totals recorded in the blob file: the uncompressed total accumulates the
    `uncompressed_len` the caller states for each blob (not the length of the possibly compressed payload), and the item count
    is incremented once per blob on every success path."""
    from rules.engine import must_pass
    from rules.props.c07 import store_blocks
    r = R.rule(rid, "blob file totals (uncompressed bytes, item count) follow the blobs written", "D,P")
    W = "vlog::blob_file::writer::Writer"
    f = prog.fn(W + "::write_raw")
    if f is None:
        r.anchor_missing(W + "::write_raw")
        return
    names = [f.local_name(i) for i in range(1, f.argc + 1)]
    if "uncompressed_len" not in names:
        r.anchor_missing("parameter uncompressed_len of write_raw")
        return
    pidx = names.index("uncompressed_len") + 1
    ok = False
    detail = ""
    for b in f.blocks:
        for st in b["stmts"]:
            if st["k"] == "assign" and "p" in st["to"] and st["to"]["p"][-1] == ".uncompressed_bytes:" + W:
                for o in origins(f, st["rv"].get("op")):
                    if o.kind == "bin" and str(o.what).startswith("Add"):
                        srcs = origins(f, o.extra["a"]) + origins(f, o.extra["b"])
                        detail = str(srcs)
                        if any(x.kind == "param" and x.what == pidx for x in srcs) and \
                                not any(x.kind == "call" and x.extra.sres.endswith("::len") for x in srcs):
                            ok = True
    r.check(ok, "%s::write_raw|uncompressed_bytes += uncompressed_len" % W,
            "the blob file's uncompressed total does not accumulate the stated uncompressed length of each blob (with compression the "
            "dead test compares garbage against a wrong total)", f.where(), detail)
    for fld in ("item_count", "uncompressed_bytes"):
        sb = store_blocks(f, ".%s:%s" % (fld, W))
        r.check(bool(sb) and must_pass(f, sb), "%s::write_raw|%s updated on every success path" % (W, fld),
                "a blob can be written without updating %s" % fld, f.where())
    r.floor(3)
