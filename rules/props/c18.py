"""C18 — reported sequence-number high-water marks equal what is actually stored.

Decided: C18.a–d of DESIGN.md §3. Not decided: numeric equality over histories."""
from rules.engine import (origins, origin_callees, short, hir_walk, hir_expr_str, hir_sites, must_pass)
from rules import anchors as A

EXPLANATION = (
    "Static decision of the high-water-mark clauses: (a) per-table marks follow the stream - Writer::write updates "
    "lowest/highest seqno on every success path (C07.c) and the seqno#min/max meta keys are paired with the right fields on "
    "both sides (C07.d); (b) composition - Table::get_highest_seqno = metadata max + global_seqno, "
    "get_highest_persisted_seqno folds max over current_version().iter_tables() (all levels, all runs), "
    "get_highest_memtable_seqno takes max over the active and every sealed memtable of the latest version, get_highest_seqno "
    "is the max of the two (default and BlobTree delegate); (c) every path of Memtable::insert passes "
    "highest_seqno.fetch_max(item.seqno) and get_highest_seqno returns None only when empty; (d) the marks survive reopen "
    "(global_seqno codec, C04.a). Not decided: numeric equality with the stored entries over histories.")
KINDS = ["P", "H", "D"]
LEVEL_TEXT = ("Static must-pass / composition analysis: every code path that stores an entry updates the mark that covers it, "
              "and the reported marks are the maxima over all the places entries can live, shifted by the global sequence "
              "number. Numeric equality with what is stored is not decided.")


def run(prog, R, tier="quick", only_rule=None):
    from rules.props import c07, c04
    c07.c07c(prog, R, rid="C18.a1")
    c07.c07d(prog, R, rid="C18.a2")
    c18b(prog, R)
    c18c(prog, R)
    c04.c04a(prog, R, rid="C18.d")
    # "never more": a version (and the tables it names) is visible in memory only after it was persisted
    from rules.props import c02, c06
    c02.c02a(prog, R, rid="C18.e")
    # each mark is computed from one view of the version history (a rotation between two looks hides a memtable from both)
    L = c06.LockFacts(prog, c06.CLASSES)
    c06.c06h(prog, R, L, rid="C18.f", methods=("get_highest_memtable_seqno", "get_highest_persisted_seqno"), share_pin=False)
    # "the same before and after reopen": every table comes back with the global seqno recorded for it
    c04.c04h(prog, R, rid="C18.g")


def c18b(prog, R):
    r = R.rule("C18.b", "the reported marks compose all places entries can live", "D")
    h = prog.hir.get("table::Table::get_highest_seqno")
    s = hir_expr_str(h["body"]) if h else ""
    r.check(s == "(self.metadata.seqnos.1 + self.global_seqno())", "table::Table::get_highest_seqno|seqnos.max + global_seqno()",
            "a table's highest seqno is not `stored max + global seqno` (an ingested table would report a mark below its entries)", "", s)
    name = A.tm(A.TREE, "get_highest_persisted_seqno")
    h = prog.hir.get(name)
    s = hir_expr_str(h["body"], 300) if h else ""
    ok = "self.current_version().iter_tables()" in s and ".map(table::Table::get_highest_seqno)" in s and s.rstrip(")").endswith(".max(") or \
        s.replace(" ", "") == "self.current_version().iter_tables().map(table::Table::get_highest_seqno).max()"
    r.check(ok, "%s|max over current_version().iter_tables() of Table::get_highest_seqno" % name,
            "the persisted high-water mark no longer covers every table of the current version", "", s)
    it = prog.hir.get("version::Version::iter_tables")
    s2 = hir_expr_str(it["body"], 300) if it else ""
    r.check(s2.count("flat_map") == 2 and "self.levels.iter()" in s2, "version::Version::iter_tables|all levels x all runs x all tables",
            "iter_tables no longer visits every run of every level", "", s2)
    name = A.tm(A.TREE, "get_highest_memtable_seqno")
    h = prog.hir.get(name)
    if h:
        lets = {n["pat"]["n"]: hir_expr_str(n["init"], 300) for n in hir_walk(h["body"]) if n.get("k") == "let" and n["pat"].get("k") == "bind" and "init" in n}
        tail = hir_expr_str(h["body"]["b"].get("e"), 100) if h["body"].get("k") == "blockx" else ""
        ok = "latest_version()" in lets.get("version", "") and lets.get("active") == "version.active_memtable.get_highest_seqno()" and \
            "version.sealed_memtables.iter()" in lets.get("sealed", "") and ".max()" in lets.get("sealed", "") and tail == "active.max(sealed)"
        r.check(ok, "%s|max(active, max over sealed) of the latest version" % name,
                "the memtable high-water mark ignores the active or a sealed memtable", "", "%s | %s" % (lets.get("sealed"), tail))
    else:
        r.anchor_missing(name)
    df = prog.fn("abstract_tree::AbstractTree::get_highest_seqno")
    if df:
        mem = [c for c in df.calls if c.sres.endswith("::get_highest_memtable_seqno")]
        per = [c for c in df.calls if c.sres.endswith("::get_highest_persisted_seqno")]
        mx = [c for c in df.calls if c.sres.endswith("::max")]
        ok = len(mem) == 1 and len(per) == 1 and len(mx) == 1 and (mx[0].dest or {}).get("l") == 0
        if ok:
            srcs = {o.extra.bb for a in mx[0].args for o in origins(df, a) if o.kind == "call"}
            ok = srcs == {mem[0].bb, per[0].bb}
        r.check(ok, "AbstractTree::get_highest_seqno|max(memtable mark, persisted mark)", "overall mark is not the max of both marks", df.where())
        # the two reads take separate views and data only moves memtable -> table: reading the memtables first can never
        # miss a seqno, reading the tables first can (a flush registering its table in between hides it from both)
        r.check(bool(mem) and bool(per) and df.dominates(mem[0].bb, per[0].bb) and mem[0].bb != per[0].bb,
                "AbstractTree::get_highest_seqno|memtable mark is read before the persisted mark",
                "the persisted mark is read before the memtable mark: a concurrent flush between the two reads makes the overall "
                "mark understate what is stored", df.where())
    for m in ("get_highest_seqno", "get_highest_memtable_seqno", "get_highest_persisted_seqno"):
        b = prog.hir.get(A.tm(A.BLOBTREE, m))
        if b:
            s = hir_expr_str(b["body"], 100)
            r.check(s == "self.index.%s()" % m, "BlobTree::%s|delegates to the index tree" % m, "BlobTree::%s no longer delegates: %s" % (m, s), "", s)
    r.floor(8)


def c18c(prog, R):
    r = R.rule("C18.c", "the memtable mark covers every inserted entry", "P")
    f = prog.need("memtable::Memtable::insert")
    fm = [c for c in f.calls if c.sres and "atomic::Atomic" in c.sres and c.sres.endswith("::fetch_max")
          and any("highest_seqno" in o.path for o in origins(f, c.args[0]))]
    ins = [c for c in f.calls if c.sres and "SkipMap" in c.sres and c.sres.endswith("::insert")]
    r.check(bool(fm) and must_pass(f, {c.bb for c in fm}, success_only=False), "%s|every path passes highest_seqno.fetch_max" % f.path,
            "an entry can be inserted without raising the memtable's highest seqno", f.where())
    for c in fm:
        src = origins(f, c.args[1])
        ok = any(o.kind == "param" and "seqno" in o.path for o in src)
        r.check(ok, "%s|fetch_max(item.key.seqno)" % f.path, "the mark is raised with something else than the item's seqno", f.where(c.bb), str(src))
    r.check(bool(ins), "%s|inserts into the skip map" % f.path, "insert anchor missing", f.where())
    h = prog.hir.get("memtable::Memtable::get_highest_seqno")
    sites = hir_sites(h["body"], lambda n: n.get("k") == "path" and n.get("p") == "std::option::Option::None") if h else []
    ok = bool(sites) and all(s.guard_texts() == ["self.is_empty()"] for s in sites)
    r.check(ok, "memtable::Memtable::get_highest_seqno|None only when empty", "the memtable mark is withheld for a non-empty memtable", "")
    r.floor(4)
