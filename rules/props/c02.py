"""C02 — a snapshot keeps returning the same answers until it is released.

Decided: C02.a–f of DESIGN.md §3. Not decided: the answers themselves; that callers respect the watermark protocol."""
import re

from rules.engine import (origins, origin_callees, deep_origins, constituent_origins, short, hir_walk, hir_expr_str, hir_sites,
                          success_ordered, must_pass, strip_generics)
from rules import anchors as A
from rules.stream_rules import StreamModel

EXPLANATION = (
    "Static decision of the snapshot-stability clauses: (a) version history discipline - append_version only from "
    "upgrade_version_with_seqno, persist => append => fetch_max(seqno+1); replace_latest_version only from rotate / "
    "clear_active_memtable and with the replaced entry's seqno; every other version change goes through upgrade_version* "
    "(census); (b) in TreeIter::create_range every source pushed into the merge is a Filter whose predicate calls "
    "seqno_filter(item.key.seqno, snapshot) and the result is Filter<MvccStream<Merger>> (MVCC selection before the "
    "tombstone filter); (c) the visibility comparisons are `item seqno < snapshot` in seqno_filter, Memtable::get, "
    "Table::get, DataBlock::point_read, get_version_for_snapshot; (d) the iterator owns its SuperVersion and the blob "
    "guard resolves against the same version; (e) read APIs reach no mutator (call graph); (f) CompactionStream drains "
    "older versions only below the caller's watermark, and the watermark flows from the API argument. Not decided: the "
    "answers themselves; that callers keep their watermark below live snapshots.")
KINDS = ["O", "W", "D", "H", "T"]
LEVEL_TEXT = ("Static structural analysis of what keeps a snapshot stable: who may change the version history and in which "
              "order, that every scan source filters by the snapshot before the merge, the comparison operators of the "
              "visibility tests, ownership of the pinned version by iterators, and the watermark gating of version GC in "
              "the compaction stream. Holds for all histories for these clauses; the returned values are not decided.")

FETCH_MAX = "seqno::SequenceNumberCounter::fetch_max"
SEQNO_FILTER = "range::seqno_filter"


def run(prog, R, tier="quick", only_rule=None):
    from rules.props import c14
    c14.c14c(prog, R, rid="C02.g")
    # a held snapshot keeps finding its version: the version GC keeps the newest entry below the watermark
    from rules.props import c20 as _c20
    _c20.c20d(prog, R, rid="C02.h")
    c02i(prog, R)
    c02k(prog, R)
    # files of versions that held snapshots still use are unlinked only through the deleted flag + Drop (C20.a/b)
    from rules.props import c05 as _c05
    _c05.c05c(prog, R, rid="C02.l")
    # files a held snapshot reads are never overwritten by a new file of the same id (id counters only move forward)
    from rules.props import c04 as _c04
    _c04.c04c(prog, R, rid="C02.j")
    c02a(prog, R)
    c02b(prog, R)
    c02c(prog, R)
    c02d(prog, R)
    from rules.props import c20
    c20.c20f(prog, R, rid="C02.e")
    c02f(prog, R)


def c02a(prog, R, rid="C02.a"):
    r = R.rule(rid, "version history discipline (append after persist, replace keeps the seqno)", "W,O")
    f = prog.need(A.UPGRADE_SEQNO)
    pers = f.calls_to(A.PERSIST_VERSION)
    app = f.calls_to(A.APPEND_VERSION)
    fm = f.calls_to(FETCH_MAX)
    if not (pers and app and fm):
        r.anchor_missing("persist_version / append_version / fetch_max in upgrade_version_with_seqno")
    for a in app:
        r.check(any(success_ordered(f, p, a.bb)[0] for p in pers), "%s|persist_version => append_version" % f.path,
                "a version can become visible without being persisted", f.where(a.bb))
        for m in fm:
            r.check(f.dominates(a.bb, m.bb), "%s|append_version => visible_seqno.fetch_max" % f.path,
                    "the visible seqno is advanced before the version it belongs to is in the history: a snapshot taken in "
                    "between resolves to the previous version", f.where(m.bb))
    for m in fm:
        src = origins(f, m.args[1]) if len(m.args) > 1 else []
        ok = any(o.kind == "bin" and str(o.what).startswith("Add") for o in src)
        r.check(ok, "%s|fetch_max(seqno + 1)" % f.path, "visible seqno is not advanced to seqno + 1", f.where(m.bb), str(src))
    # the seqno stored in the entry is the function's argument
    stores = []
    for i, b in enumerate(f.blocks):
        for st in b["stmts"]:
            if st["k"] == "assign" and "p" in st["to"] and st["to"]["p"][-1].startswith(".seqno:version::super_version::SuperVersion"):
                stores.append((i, st))
    ok = bool(stores) and all(any(o.kind == "param" for o in origins(f, st["rv"]["op"])) for (_i, st) in stores if st["rv"].get("op"))
    r.check(ok, "%s|next_version.seqno = seqno argument" % f.path, "the new history entry is not stamped with the caller's seqno", f.where())
    # append only here; replace only from rotate / clear_active_memtable
    for c in prog.all_calls(A.APPEND_VERSION):
        r.check(c.fn.path == A.UPGRADE_SEQNO, "%s|calls append_version" % c.fn.path,
                "append_version is called outside upgrade_version_with_seqno", c.fn.where(c.bb))
    allowed = {A.tm(A.TREE, "rotate_memtable"), A.tm(A.TREE, "clear_active_memtable")}
    reps = prog.all_calls(A.REPLACE_LATEST)
    if len(reps) < 2:
        r.anchor_missing("replace_latest_version call sites (found %d)" % len(reps))
    for c in reps:
        g = c.fn
        r.check(g.path in allowed, "%s|calls replace_latest_version" % g.path,
                "replace_latest_version is used outside rotate/clear_active_memtable: a version change that snapshots must "
                "see as a new entry would overwrite the entry they resolve to", g.where(c.bb))
        # the replacement's seqno comes from the replaced entry
        sto = []
        for i, b in enumerate(g.blocks):
            for st in b["stmts"]:
                if st["k"] == "assign" and "p" in st["to"] and st["to"]["p"][-1].startswith(".seqno:version::super_version::SuperVersion"):
                    sto.append(st)
        ok = bool(sto)
        for st in sto:
            src = origins(g, st["rv"]["op"]) if st["rv"].get("op") else []
            ok = ok and any(o.kind == "call" and o.extra.sres == A.LATEST_VERSION and "seqno" in o.path for o in src)
        r.check(ok, "%s|replacement keeps the replaced entry's seqno" % g.path,
                "the replaced history entry gets a different seqno: snapshots between the old and new seqno resolve differently",
                g.where(c.bb))
    # a version is always stamped with a freshly allocated write seqno (never a read of a counter, never the visible one):
    # otherwise a snapshot taken right after can be ahead of the write counter and later writes land below it
    NEXT = "seqno::SequenceNumberCounter::next"
    stamped = [c for c in prog.all_calls(A.UPGRADE_SEQNO)]
    for c in stamped:
        g = c.fn
        idx = [i for i, t in enumerate(c.arg_tys) if t == "u64"]
        src = origins(g, c.args[idx[0]]) if idx else []
        fresh = bool(src) and all(o.kind == "call" and o.extra.sres == NEXT for o in src)
        recv_ok = True
        for o in src:
            if o.kind == "call" and o.extra.sres == NEXT:
                for ro in origins(g, o.extra.args[0]):
                    if any("visible" in p_ for p_ in ro.path) or (ro.kind == "param" and "visible" in g.local_name(ro.what)):
                        recv_ok = False
        r.check(fresh and recv_ok, "%s|version stamped with <write counter>.next()" % g.path,
                "a version is installed with a seqno that was not freshly allocated from the write counter (%s): snapshots taken "
                "afterwards can see later writes" % [str(o) for o in src], g.where(c.bb), str(src))
    if len(stamped) < 3:
        r.anchor_missing("upgrade_version_with_seqno call sites (found %d)" % len(stamped))
    # census of upgrade sites
    ups = [c for c in prog.all_calls(A.UPGRADE, A.UPGRADE_SEQNO) if c.fn.path != A.UPGRADE]
    r.ok("census|%d upgrade_version* call sites" % len(ups), ", ".join(sorted({short(c.fn.path) for c in ups})), nontrivial=False)
    if len(ups) < 9:
        r.anchor_missing("upgrade_version* call sites (found %d, 9 confirmed by reading)" % len(ups))
    # the counter that is advanced on publication is the *visible* seqno counter, the one that stamps versions the *write*
    # counter (both are SequenceNumberCounter: a mix-up type-checks, and then no compaction ever makes its version visible to
    # snapshots taken afterwards)
    for c in ups + [c for c in prog.all_calls(A.UPGRADE) if c.fn.path == A.UPGRADE]:
        callee = prog.fn(c.sres)
        if callee is None:
            continue
        names = [callee.local_name(i) for i in range(1, callee.argc + 1)]
        for pname, want in (("visible_seqno", ("visible_seqno",)), ("global_seqno", ("seqno", "global_seqno"))):
            if pname not in names:
                continue
            flds = set()
            for (gg, o) in deep_origins(prog, c.fn, c.args[names.index(pname)]):
                if o.path:
                    flds.add(o.path[-1])
                elif o.kind == "param":
                    flds.add(gg.local_name(o.what))
            r.check(bool(flds) and flds <= set(want), "%s|%s(%s = the %s counter)" % (prog.fns.get(c.fn.root, c.fn).path, short(c.sres), pname, want[0]),
                    "the %s argument of a version upgrade is fed from %s" % (pname, sorted(flds)), c.fn.where(c.bb), str(sorted(flds)))
    of = prog.fn("compaction::worker::Options::from_tree")
    if of is None:
        r.anchor_missing("compaction::worker::Options::from_tree")
    else:
        for b in of.blocks:
            for st in b["stmts"]:
                if st["k"] == "assign" and st["rv"]["k"] == "agg" and st["rv"].get("adt") == "compaction::worker::Options":
                    for fn_, op in zip(st["rv"]["fields"], st["rv"]["ops"]):
                        want = {"visible_seqno": "visible_seqno", "global_seqno": "seqno"}.get(fn_)
                        if want:
                            flds = {o.path[-1] for o in origins(of, op) if o.path}
                            r.check(flds == {want}, "compaction::worker::Options::from_tree|%s = tree.config.%s" % (fn_, want),
                                    "compaction options take %s from %s" % (fn_, sorted(flds)), of.where(), str(sorted(flds)))
    r.floor(22)


CLOSURE_TY = re.compile(r"\{closure@([^:]+):(\d+):(\d+): (\d+):(\d+)\}")


def closures_in_type(prog, ty, root):
    """Closure Fns named inside a type string (matched by file + start line among the closures of `root`)."""
    out = []
    for m in CLOSURE_TY.finditer(ty):
        file, line = m.group(1), int(m.group(2))
        cands = [g for g in prog.closures_of.get(root, []) if g.file.endswith(file) and g.ln == line]
        out.append((m.group(0), cands))
    return out


def c02b(prog, R, rid="C02.b"):
    r = R.rule(rid, "every scan source is filtered by the snapshot before the merge; MVCC before tombstone filter", "T")
    root = "range::TreeIter::create_range"
    f = prog.need(root)
    fam = prog.family(f)
    pushes = [(g, c) for g in fam for c in g.calls if c.sres == "std::vec::Vec::push" and c.arg_tys
              and "DoubleEndedIterator" in c.arg_tys[0]]
    if len(pushes) < 5:
        r.anchor_missing("iters.push(..) sites in TreeIter::create_range (found %d, 5 confirmed)" % len(pushes))
    n = 0
    for (g, c) in pushes:
        n += 1
        # the pushed Box<dyn ..> is an unsize cast of Box::new::<T>(..)
        tys = set()
        al = c.args[1].get("l")
        for (_bb, kind, payload) in g.defs().get(al, []):
            if kind == "assign" and payload["rv"]["k"] == "cast" and payload["rv"]["op"].get("l") is not None:
                t = g.local_ty(payload["rv"]["op"]["l"])
                if t.startswith("std::boxed::Box<"):
                    tys.add(t[len("std::boxed::Box<"):-1])
            elif kind == "assign" and payload["rv"]["k"] == "use" and payload["rv"]["op"].get("l") is not None:
                # `let iter = Box::new(..); iters.push(iter)` : one more hop
                for (_b2, k2, p2) in g.defs().get(payload["rv"]["op"]["l"], []):
                    if k2 == "assign" and p2["rv"]["k"] == "cast" and p2["rv"]["op"].get("l") is not None:
                        t = g.local_ty(p2["rv"]["op"]["l"])
                        if t.startswith("std::boxed::Box<"):
                            tys.add(t[len("std::boxed::Box<"):-1])
        if not tys:
            r.bad("%s|push #%d: source type unknown" % (root, n), "cannot resolve the concrete iterator type pushed into the merge", g.where(c.bb))
            continue
        for ty in tys:
            shape_ok = ty.startswith("std::iter::Filter<") or ty.startswith("std::iter::Map<std::iter::Filter<")
            cl = closures_in_type(prog, ty, f.path)
            calls_filter = False
            for (_txt, cands) in cl:
                for cg in cands:
                    if any(x.sres == SEQNO_FILTER for x in cg.calls):
                        calls_filter = True
            kind = re.sub(r"\{closure@[^}]*\}", "{closure}", ty)
            kind = re.sub(r"<'[a-z_]+>|'[a-z_]+, ?", "", kind)[:110]
            r.check(shape_ok and calls_filter, "%s|source %s" % (root, kind),
                    "a scan source enters the merge without the snapshot filter (entries newer than the snapshot would be "
                    "seen, and shadow the visible version in the MVCC stage)", g.where(c.bb), ty[:200])
    # seqno_filter is applied to (item.key.seqno, snapshot)
    h = prog.hir.get(root)
    calls = [n_ for n_ in hir_walk(h["body"]) if n_.get("k") == "call" and n_.get("p") == SEQNO_FILTER]
    ok = len(calls) >= 5 and all(hir_expr_str(x["a"][0]) == "item.key.seqno" and hir_expr_str(x["a"][1]) in ("seqno", "*seqno")
                                 for x in calls)
    r.check(ok, "%s|seqno_filter(item.key.seqno, seqno) at %d sites" % (root, len(calls)),
            "seqno_filter is called with other operands than (item seqno, snapshot seqno)", f.where(),
            str([(hir_expr_str(x["a"][0]), hir_expr_str(x["a"][1])) for x in calls]))
    # result: Filter<MvccStream<Merger<..>>, closure testing is_tombstone>
    final = [(g, c) for g in fam for c in g.calls if c.sres == "std::boxed::Box::new" and c.substs
             and c.substs[0].startswith("std::iter::Filter<mvcc_stream::MvccStream<merge::Merger<")]
    r.check(len(final) == 1, "%s|result is Filter<MvccStream<Merger<_>>, _>" % root,
            "the scan pipeline is no longer merge -> MVCC selection -> tombstone filter (filtering tombstones first lets an "
            "older value resurface)", f.where())
    for (g, c) in final:
        cl = closures_in_type(prog, c.substs[0], f.path)
        ok = any(any(x.sres and x.sres.endswith("is_tombstone") for x in cg.calls) for (_t, cands) in cl for cg in cands)
        r.check(ok, "%s|final filter tests is_tombstone" % root, "the final filter is not the tombstone filter", g.where(c.bb))
    r.floor(8)


def fn_exprs(prog, path, kinds=("bin",)):
    h = prog.hir.get(path) or prog.hir.get(strip_generics(path))
    if h is None:
        f = prog.fn(path)
        h = prog.hir.get(f.path) if f else None
    if h is None:
        return None
    return [n for n in hir_walk(h["body"]) if n.get("k") in kinds]


CMP = ("<", "<=", ">", ">=", "==", "!=")


def cmp_table(prog, path, mention):
    """All comparisons in a function whose text mentions `mention`."""
    ex = fn_exprs(prog, path)
    if ex is None:
        return None
    return sorted({hir_expr_str(n) for n in ex if n["op"] in CMP and mention in hir_expr_str(n)})


def c02c(prog, R):
    r = R.rule("C02.c", "visibility comparisons: visible <=> item seqno < snapshot", "B")
    # seqno_filter
    h = prog.hir.get(SEQNO_FILTER)
    body = hir_expr_str(h["body"]) if h else None
    r.check(body == "(item_seqno < seqno)", "range::seqno_filter|item_seqno < seqno", "seqno_filter is not `item < snapshot`", "", str(body))
    # Memtable::get: None for snapshot 0; lower bound (key, snapshot - 1)
    t = cmp_table(prog, "memtable::Memtable::get", "seqno")
    r.check(t == ["(seqno == 0)"], "memtable::Memtable::get|snapshot 0 sees nothing", "Memtable::get comparison table changed", "", str(t))
    ex = fn_exprs(prog, "memtable::Memtable::get", kinds=("call",)) or []
    ik = [hir_expr_str(n) for n in ex if (n.get("p") or "").endswith("InternalKey::new")]
    r.check(any("(seqno - 1)" in s for s in ik), "memtable::Memtable::get|range starts at (key, snapshot - 1)",
            "Memtable::get no longer starts its search at seqno - 1 (entries with seqno == snapshot would be visible)", "", str(ik))
    # Table::get: bail out when the table's lowest seqno is not below the (translated) snapshot
    t = cmp_table(prog, "table::Table::get", "seqno")
    r.check(t is not None and "(self.metadata.seqnos.0 >= seqno)" in t, "table::Table::get|skip table when seqno#min >= snapshot",
            "Table::get fast-path comparison changed", "", str(t))
    # DataBlock::point_read skips item.seqno >= snapshot
    t = cmp_table(prog, "table::data_block::DataBlock::point_read", "seqno")
    r.check(t == ["(item.seqno >= seqno)"], "table::data_block::DataBlock::point_read|skip item.seqno >= snapshot",
            "DataBlock::point_read visibility comparison changed", "", str(t))
    sites = hir_sites(prog.hir["table::data_block::DataBlock::point_read"]["body"], lambda n: n.get("k") == "continue")
    ok = any("(item.seqno >= seqno)" in s.guard_texts() for s in sites)
    r.check(ok, "table::data_block::DataBlock::point_read|the comparison guards a skip (continue)",
            "the seqno comparison no longer guards the skip of invisible versions", "")
    # get_version_for_snapshot: newest entry with seqno < S, searching from the back
    gv = "version::super_version::SuperVersions::get_version_for_snapshot"
    t = cmp_table(prog, gv, "seqno")
    r.check(t is not None and "(version.seqno < seqno)" in t and "(seqno == 0)" in t and len(t) == 2,
            "%s|newest entry with version.seqno < snapshot" % gv, "get_version_for_snapshot comparison table changed", "", str(t))
    ex = fn_exprs(prog, gv, kinds=("mcall",)) or []
    finds = [n for n in ex if n.get("m") == "find"]
    ok = bool(finds) and all(".rev()" in hir_expr_str(n["r"]) for n in finds)
    r.check(ok, "%s|searches newest first (iter().rev().find)" % gv,
            "get_version_for_snapshot no longer searches from the newest entry (an older entry below the snapshot would win)", "")
    # index block seek: block skipped iff end key < needle or (== needle and end seqno >= snapshot)  -> C12.e; here Table::point_read
    r.floor(8)


def c02d(prog, R, rid="C02.d"):
    r = R.rule(rid, "iterators pin their view: the SuperVersion is owned, the blob guard resolves against the same one", "ADT,D")
    st = prog.adts.get("range::IterState")
    if st is None:
        r.anchor_missing("struct range::IterState")
    else:
        fields = {fd["name"]: fd["ty"] for fd in st["variants"][0]["fields"]}
        r.check(fields.get("version") == "version::super_version::SuperVersion", "range::IterState|owns SuperVersion by value",
                "IterState no longer owns the SuperVersion (a reference/Arc to shared state would follow later changes)", "", str(fields))
    sv = prog.adts.get("version::super_version::SuperVersion")
    if sv:
        tys = {fd["name"]: fd["ty"] for fd in sv["variants"][0]["fields"]}
        bad = [k for k, v in tys.items() if re.search(r"RwLock|Mutex|RefCell|Cell<|Atomic", v)]
        r.check(not bad, "version::super_version::SuperVersion|no interior mutability in its fields",
                "SuperVersion gained interior mutability: a pinned snapshot could change under its reader", "", str(tys))
    svs = prog.adts.get("version::super_version::SuperVersions")
    if svs:
        tys = [fd["ty"] for fd in svs["variants"][0]["fields"]]
        r.check(all(not re.search(r"RwLock|Mutex|RefCell|Cell<", t) for t in tys), "SuperVersions|plain VecDeque (mutation needs &mut = write guard)",
                "SuperVersions gained interior mutability", "", str(tys))
    # TreeIter's owner is IterState: the self_cell `new` is called with the IterState parameter
    cr = prog.need("range::TreeIter::create_range")
    news = [c for c in cr.calls if c.sres and c.sres.endswith("TreeIter::new")]
    ok = bool(news) and all(any(o.kind == "param" and o.what == 1 for o in origins(cr, c.args[0])) for c in news)
    r.check(ok, "range::TreeIter::create_range|TreeIter::new(guard, ..) owns the IterState argument",
            "the iterator is not built around the IterState it was given", cr.where())
    # BlobTree::range / prefix: the Guard's version is a field of the SuperVersion passed to create_internal_range
    for m in ("range", "prefix"):
        name = A.tm(A.BLOBTREE, m)
        f = prog.need(name)
        cir = [c for c in f.calls if c.sres and c.sres.endswith("Tree::create_internal_range")]
        if not cir:
            r.anchor_missing("create_internal_range in " + name)
            continue
        sv_src = {(o.kind, str(o.what), o.bb) for o in origins(f, cir[0].args[0])}
        ok = False
        for g in prog.family(f):
            for i, b in enumerate(g.blocks):
                for stt in b["stmts"]:
                    if stt["k"] == "assign" and stt["rv"]["k"] == "agg" and stt["rv"].get("adt") == "blob_tree::Guard":
                        idx = stt["rv"]["fields"].index("version")
                        for (gg, o) in deep_origins(prog, g, stt["rv"]["ops"][idx]):
                            if gg.path == f.path and (o.kind, str(o.what), o.bb) in sv_src and "version" in o.path:
                                ok = True
        r.check(ok, "%s|Guard.version = super_version.version of the scanned SuperVersion" % name,
                "blob pointers of a scan are resolved against a different version than the one scanned", f.where())
    g = prog.need(A.tm(A.BLOBTREE, "get"))
    gie = [c for c in g.calls if c.sres and c.sres.endswith("get_internal_entry_from_version")]
    rvh = [c for c in g.calls if c.sres and c.sres.endswith("resolve_value_handle")]
    ok = False
    if gie and rvh:
        a = {(o.kind, str(o.what), o.bb) for o in origins(g, gie[0].args[0])}
        for arg in rvh[0].args:
            for o in origins(g, arg):
                if (o.kind, str(o.what), o.bb) in a and "version" in o.path:
                    ok = True
    r.check(ok, "%s|resolve_value_handle uses the version of the SuperVersion that was read" % g.path,
            "BlobTree::get resolves the pointer against another version than the one the entry was read from", g.where())
    r.floor(6)


def c02f(prog, R, rid="C02.f"):
    r = R.rule(rid, "versions are garbage-collected only below the caller's watermark", "K,D")
    sm = StreamModel(prog)
    dk = sm.calls("drain_key")
    if len(dk) < 2:
        r.anchor_missing("drain_key calls in CompactionStream::next (found %d)" % len(dk))
    for i, s in enumerate(dk):
        g = sm.guards(s)
        ok = sm.BELOW_WATERMARK in g and sm.SAME_KEY in g
        r.check(ok, "%s|drain_key #%d guarded by same key & head.seqno <= gc_seqno_threshold" % (sm.path, i + 1),
                "older versions are drained although the entry shadowing them is not visible to every snapshot above the watermark "
                "(the guard must be `head.seqno <= watermark`): a snapshot between the two versions loses its value", "",
                " & ".join(g)[-200:])
    # zero_seqnos(false) in merge_tables, watermark plumbing
    mt = prog.need(A.MERGE_TABLES)
    z = [c for c in mt.calls if c.sres and c.sres.endswith("::zero_seqnos")]
    ok = bool(z) and all(any(o.kind == "const" and o.what == "0" for o in origins(mt, c.args[1])) for c in z)
    r.check(ok, "%s|zero_seqnos(false)" % mt.path, "compaction zeroes sequence numbers (snapshots would see every entry)", mt.where())
    cs = prog.need("compaction::worker::create_compaction_stream")
    news = [c for c in cs.calls if c.sres and c.sres.endswith("CompactionStream::new")] or \
           [c for g in prog.family(cs) for c in g.calls if c.sres and c.sres.endswith("CompactionStream::new")]
    ok = bool(news) and all(any(o.kind == "param" for o in origins(c.fn, c.args[1])) for c in news)
    r.check(ok, "%s|CompactionStream::new(.., gc watermark parameter)" % cs.path,
            "the compaction stream is not created with the caller's watermark", cs.where())
    ccs = mt.calls_to("compaction::worker::create_compaction_stream")
    ok = bool(ccs) and all(any("mvcc_gc_watermark" in o.path for o in origins(mt, c.args[2])) for c in ccs)
    r.check(ok, "%s|passes opts.mvcc_gc_watermark" % mt.path, "merge_tables does not hand the configured watermark to the stream", mt.where())
    ic = prog.need("tree::Tree::inner_compact")
    sto = [st for b in ic.blocks for st in b["stmts"] if st["k"] == "assign" and "p" in st["to"]
           and st["to"]["p"][-1].startswith(".mvcc_gc_watermark:")]
    ok = bool(sto) and all(any(o.kind == "param" for o in origins(ic, st["rv"]["op"])) for st in sto if st["rv"].get("op"))
    r.check(ok, "%s|opts.mvcc_gc_watermark = API argument" % ic.path, "inner_compact does not use the caller's watermark", ic.where())
    fl = prog.need(A.ABSTRACT_FLUSH)
    news = [c for c in fl.calls if c.sres and c.sres.endswith("CompactionStream::new")]
    ok = bool(news) and all(any(o.kind == "param" for o in origins(fl, c.args[1])) for c in news)
    r.check(ok, "%s|flush stream uses its seqno_threshold argument" % fl.path, "flush GC threshold is not the caller's", fl.where())
    r.floor(7)


def c02i(prog, R, rid="C02.i"):
    """The GC watermark - below which the version history is trimmed and older versions of a key are dropped - is a promise by
    the *caller* that no snapshot at or below it is in use.  The tree cannot know that by itself: every internal source of a
    watermark is either the caller's argument handed through unchanged or the constant 0 (trim nothing)."""
    r = R.rule(rid, "GC watermarks come from the caller (or are 0), never from the tree's own counters", "D")
    n = 0
    for callee, argi in (("tree::Tree::inner_compact", 2), ("version::super_version::SuperVersions::maintenance", 2)):
        for c in prog.all_calls(callee):
            n += 1
            bad = []
            for (g, o) in deep_origins(prog, c.fn, c.args[argi]):
                if o.kind == "const" and str(o.what) == "0":
                    continue
                if o.kind == "param":
                    nm = g.local_name(o.what)
                    fld = o.path[-1] if o.path else None
                    if fld == "mvcc_gc_watermark" or (not o.path and nm in ("seqno_threshold", "mvcc_gc_watermark", "gc_watermark", "watermark", "eviction_seqno", "seqno")):
                        continue
                bad.append(repr(o))
            r.check(not bad, "%s|%s(watermark = caller's argument or 0)" % (prog.fns.get(c.fn.root, c.fn).path, short(callee)),
                    "a GC watermark is derived from %s instead of the caller's promise: versions / history entries that a held "
                    "snapshot still needs can be trimmed" % bad, c.fn.where(c.bb), str(bad))
    if n < 9:
        r.anchor_missing("watermark hand-over sites (found %d, confirmed 9)" % n)
    # Options.mvcc_gc_watermark is filled from inner_compact's parameter
    f = prog.need("tree::Tree::inner_compact")
    ok = False
    for b in f.blocks:
        for st in b["stmts"]:
            if st["k"] == "assign" and "p" in st["to"] and st["to"]["p"][-1].startswith(".mvcc_gc_watermark"):
                ok = any(o.kind == "param" and o.what == 3 for o in origins(f, st["rv"].get("op")))
    r.check(ok, "tree::Tree::inner_compact|opts.mvcc_gc_watermark = the watermark parameter", "inner_compact does not hand its watermark on", f.where())
    r.floor(10)


def c02k(prog, R, rid="C02.k"):
    """The per-source snapshot filter lets *errors* through: a source item is a Result, and an Err (a block that failed its
    checksum, an I/O error) has to reach the caller of the scan.  A filter that maps Err to `false` silently skips the damaged
    block and the scan carries on with the next one."""
    r = R.rule(rid, "the snapshot filter of a scan source passes errors through", "E")
    n = 0
    for p_, g in sorted(prog.fns.items()):
        if not (p_.startswith("range::TreeIter::create_range::{closure") and any(c.sres == SEQNO_FILTER for c in g.calls)):
            continue
        ptys = [g.local_ty(i) or "" for i in range(1, g.argc + 1)]
        if not any("Result<" in t for t in ptys):
            continue      # memtable sources yield plain items
        n += 1
        rets = [st["rv"] for b in g.blocks for st in b["stmts"] if st["k"] == "assign" and st["to"]["l"] == 0 and "p" not in st["to"]]
        passes_err = any(rv["k"] == "use" and rv["op"].get("o") == "const" and str(rv["op"].get("v")) in ("1", "true") for rv in rets)
        swallow = [short(c.sres) for c in g.calls if c.sres.endswith(("Result::is_ok_and", "Result::ok", "Result::unwrap_or", "Result::is_ok",
                                                                       "Result::map_or", "Result::unwrap_or_default"))]
        r.check(passes_err and not swallow, "%s|Err(_) => true" % p_,
                "a scan source's snapshot filter does not let Err items through (%s): a corrupted block is skipped silently and the scan "
                "returns fewer keys" % (swallow or "no `true` for the Err case"), g.where(), str(swallow))
    if n < 2:
        r.anchor_missing("Result-yielding scan sources with a snapshot filter (found %d, confirmed 2)" % n)
    r.floor(2)
