"""C11 — physical tuning and cache sharing never change logical results.

Claimed narrowly: cache / descriptor-table key namespacing, agreement of the three block-index readers, hash-index bucket
agreement (C11.a–c of DESIGN.md §3). NOT decided: result equality across configurations."""
import re

from rules.engine import (origins, origin_callees, hir_walk, hir_expr_str, hir_sites, pat_str, short)
from rules import anchors as A

EXPLANATION = (
    "Static decision of the sharing / policy-independence clauses that are structural: (a) block-cache and descriptor-table "
    "keys are complete and the insert / lookup twins agree: Cache::{get_block, insert_block} build (TAG_BLOCK, tree id, table "
    "id, offset), {get_blob, insert_blob} build (TAG_BLOB, tree id, blob file id, offset), the two tags are distinct constants, "
    "DescriptorTable's six methods likewise; TreeInner.id comes only from the process-wide get_next_tree_id(); (b) the three "
    "block-index readers (full, volatile, two-level) pass the caller's (key, seqno) unchanged to index_block seek / "
    "seek_upper and BlockIndexImpl / BlockIndexIterImpl treat the three variants alike; (c) hash-index writer and reader compute "
    "the bucket through the same function on the user key and their own bucket count, and DataBlock::point_read maps the "
    "reader outcomes FREE -> absent, CONFLICT -> binary search, otherwise -> seek_to_offset(binary_index[idx]). NOT decided "
    "(outside static analysis): equality of results under different block sizes, restart intervals, hash ratios, partitioning, "
    "pinning, filter policies, compression and cache capacities - a statement about decoder arithmetic on run-time bytes.")
KINDS = ["G", "H"]
LEVEL_TEXT = ("Static sibling-agreement analysis of the shared-cache key construction, of the three interchangeable block-index "
              "readers and of the hash index writer/reader pair: if trees sharing a cache or a policy choice could change "
              "results through these paths, the two sides of a pair would have to differ structurally. Equality of results "
              "across physical configurations is explicitly not decided.")


def run(prog, R, tier="quick", only_rule=None):
    c11a(prog, R)
    c11b(prog, R)
    c11c(prog, R)
    # the interchangeable index readers / table iterator behave alike from both ends (a partitioned index differs from a
    # full one only in how many levels are walked)
    from rules.props import c03
    c03.c03k(prog, R, rid="C11.d")
    # full vs partitioned filter: same hash, same probe sequence, and a partition index that never hides a partition
    from rules.props import c12
    c12.c12a(prog, R, rid="C11.e")
    c12.c12i(prog, R, rid="C11.f")


def tuple_of(h, into_only=True):
    """Key tuples built in a function body: list of component strings."""
    out = []
    for n in hir_walk(h["body"]):
        if n.get("k") == "tuple" and len(n["a"]) == 4:
            out.append([hir_expr_str(a) for a in n["a"]])
        if n.get("k") == "call" and (n.get("p") or "").endswith("CacheKey") and len(n["a"]) == 3:
            out.append([hir_expr_str(a) for a in n["a"]])
    return out


def c11a(prog, R):
    r = R.rule("C11.a", "cache / descriptor-table keys are complete and insert/lookup twins agree", "G,W")
    pairs = [
        ("cache::Cache::get_block", "cache::Cache::insert_block", ["cache::TAG_BLOCK", "id.tree_id()", "id.table_id()", "*offset"]),
        ("cache::Cache::get_blob", "cache::Cache::insert_blob", ["cache::TAG_BLOB", "vlog_id", "vhandle.blob_file_id", "vhandle.offset"]),
        ("descriptor_table::DescriptorTable::access_for_table", "descriptor_table::DescriptorTable::insert_for_table",
         ["descriptor_table::TAG_BLOCK", "id.tree_id()", "id.table_id()"]),
        ("descriptor_table::DescriptorTable::access_for_blob_file", "descriptor_table::DescriptorTable::insert_for_blob_file",
         ["descriptor_table::TAG_BLOB", "id.tree_id()", "id.table_id()"]),
        ("descriptor_table::DescriptorTable::access_for_table", "descriptor_table::DescriptorTable::remove_for_table",
         ["descriptor_table::TAG_BLOCK", "id.tree_id()", "id.table_id()"]),
        ("descriptor_table::DescriptorTable::access_for_blob_file", "descriptor_table::DescriptorTable::remove_for_blob_file",
         ["descriptor_table::TAG_BLOB", "id.tree_id()", "id.table_id()"]),
    ]
    for g, i, want in pairs:
        hg, hi = prog.hir.get(g), prog.hir.get(i)
        if not hg or not hi:
            r.anchor_missing("%s / %s" % (g, i))
            continue
        tg, ti = tuple_of(hg), tuple_of(hi)
        ok = tg == [want] and ti == [want]
        r.check(ok, "%s <-> %s|key = (%s)" % (short(g), short(i), ", ".join(w.split("::")[-1] for w in want)),
                "the key built on lookup %s and on insert %s differ from (%s): entries of another tree / file kind could be served"
                % (tg, ti, want), "", str(tg))
    # tags distinct (per module)
    for mod, fns in (("cache", ("cache::Cache::get_block", "cache::Cache::get_blob")),
                     ("descriptor_table", ("descriptor_table::DescriptorTable::access_for_table", "descriptor_table::DescriptorTable::access_for_blob_file"))):
        vals = {}
        for fn_ in fns:
            f = prog.fn(fn_)
            if not f:
                continue
            for b in f.blocks:
                for st in b["stmts"]:
                    if st["k"] == "assign":
                        rv = st["rv"]
                        ops = rv.get("ops") or ([rv["op"]] if rv.get("op") else [])
                        for op in ops:
                            if op.get("o") == "const" and op.get("def", "").endswith(("TAG_BLOCK", "TAG_BLOB")):
                                vals[op["def"]] = op.get("v")
        r.check(len(vals) == 2 and len(set(vals.values())) == 2, "%s|TAG_BLOCK and TAG_BLOB are distinct constants" % mod,
                "tag constants collide or are missing: %s" % vals, "", str(vals))
    # tree ids come from the global counter
    n = 0
    for p, f in sorted(prog.fns.items()):
        for b in f.blocks:
            for st in b["stmts"]:
                if st["k"] == "assign" and st["rv"]["k"] == "agg" and st["rv"].get("adt") == "tree::inner::TreeInner":
                    n += 1
                    idx = st["rv"]["fields"].index("id")
                    names = origin_callees(f, st["rv"]["ops"][idx])
                    r.check("tree::inner::get_next_tree_id" in names, "%s|TreeInner.id = get_next_tree_id()" % p,
                            "a tree is constructed with an id that does not come from the process-wide counter (two trees sharing a "
                            "cache could collide)", f.where(), str(sorted(names)))
    if n < 2:
        r.anchor_missing("TreeInner construction sites (found %d)" % n)
    g = prog.hir.get("tree::inner::get_next_tree_id")
    s = [hir_expr_str(x) for x in hir_walk(g["body"]) if x.get("k") == "mcall" and x.get("m") == "fetch_add"] if g else []
    r.check(len(s) == 1, "get_next_tree_id|fetch_add on a process-wide counter", "tree id allocation changed: %s" % s, "", str(s))
    # callers pass the owning table's global id
    for fn_, callee in (("table::util::load_block", "cache::Cache::get_block"), ("table::util::load_block", "cache::Cache::insert_block")):
        f = prog.need(fn_)
        for c in f.calls_to(callee):
            ok = any(o.kind == "param" and o.what == 1 for o in origins(f, c.args[1]))
            r.check(ok, "%s|%s keyed by the table_id parameter" % (fn_, short(callee)), "cache accessed with a foreign id", f.where(c.bb))
    # every GlobalTableId is built as (tree id, file id), in that order (the components are both u64)
    n = 0
    for p, f in sorted(prog.fns.items()):
        for c in f.calls:
            if not (any("table::id::GlobalTableId" in s_ for s_ in c.substs) and c.sres.endswith(("Into<U>>::into", "::from")) and c.args):
                continue
            for o in origins(f, c.args[0]):
                if o.kind != "agg" or not isinstance(o.extra, dict) or len(o.extra.get("ops", [])) != 2:
                    continue
                n += 1
                comp = []
                for sub in o.extra["ops"]:
                    names = set()
                    for x in origins(f, sub):
                        if x.path:
                            names.add(x.path[-1])
                        elif x.kind == "param":
                            names.add(f.local_name(x.what) or "?")
                        elif x.kind == "call":
                            names.add(x.extra.sres.split("::")[-1] + "()")
                        else:
                            names.add(x.kind)
                    comp.append(names)
                ok0 = bool(comp[0]) and comp[0] <= {"tree_id"}
                ok1 = bool(comp[1]) and comp[1] <= {"id", "id()", "blob_file_id", "table_id"}
                r.check(ok0 and ok1, "%s|GlobalTableId::from((tree id, file id))" % p,
                        "a global (cache / descriptor-table) id is built from (%s, %s): with a shared cache or descriptor table "
                        "entries of another tree's file can be served" % (sorted(comp[0]), sorted(comp[1])), f.where(c.bb),
                        "(%s, %s)" % (sorted(comp[0]), sorted(comp[1])))
    if n < 7:
        r.anchor_missing("GlobalTableId construction sites (found %d, confirmed 7)" % n)
    # every argument passed for a parameter called tree_id / vlog_id is a tree id
    from rules.engine import deep_origins
    m = 0
    for p, f in sorted(prog.fns.items()):
        for c in f.calls:
            g = prog.fn(c.sres) if c.local else None
            if g is None:
                continue
            for i in range(min(g.argc, len(c.args))):
                if g.local_name(i + 1) not in ("tree_id", "vlog_id"):
                    continue
                m += 1
                bad = []
                for (h_, x) in deep_origins(prog, f, c.args[i]):
                    last = x.path[-1] if x.path else None
                    if last == "tree_id" or (x.kind == "param" and not x.path and h_.local_name(x.what) == "tree_id"):
                        continue
                    if x.kind == "call" and x.extra.sres in ("tree::inner::get_next_tree_id", "<tree::Tree as abstract_tree::AbstractTree>::id",
                                                             "<blob_tree::BlobTree as abstract_tree::AbstractTree>::id"):
                        continue
                    if last == "id" and x.kind == "param" and "Tree" in (h_.local_ty(x.what) or ""):
                        continue
                    # `<something>.tree.id` / `.index.id` / `index().id`: the id field of the (index) tree
                    if last == "id" and ((len(x.path) >= 2 and x.path[-2] in ("tree", "index")) or
                                         (x.kind == "call" and len(x.path) == 1 and x.extra.sres.endswith("::index"))):
                        continue
                    bad.append(repr(x))
                r.check(not bad, "%s|%s(%s = a tree id)" % (p, short(c.sres), g.local_name(i + 1)),
                        "a value that is not a tree id (%s) is passed as %s" % (bad, g.local_name(i + 1)), f.where(c.bb), str(bad))
    if m < 15:
        r.anchor_missing("call sites with a tree_id parameter (found %d, confirmed 21)" % m)
    fr = prog.fn("<table::id::GlobalTableId as std::convert::From<(u64, u64)>>::from")
    acc = {"tree_id": prog.hir.get("table::id::GlobalTableId::tree_id"), "table_id": prog.hir.get("table::id::GlobalTableId::table_id")}
    got = {k: [hir_expr_str(x) for x in hir_walk(v["body"]) if x.get("k") == "field"] for k, v in acc.items() if v}
    r.check(got.get("tree_id") == ["self.0"] and got.get("table_id") == ["self.1"] and fr is not None,
            "GlobalTableId|tree_id() = .0, table_id() = .1", "the accessors of GlobalTableId read %s" % got, "", str(got))
    r.floor(40)


def c11b(prog, R):
    r = R.rule("C11.b", "the three block-index readers agree", "G")
    kinds = ("full", "volatile", "two_level")
    for m in ("seek_lower", "seek_upper"):
        seen = {}
        for kd in kinds:
            k = "<table::block_index::%s::Iter as table::block_index::BlockIndexIter>::%s" % (kd, m)
            h = prog.hir.get(k)
            if not h:
                r.anchor_missing(k)
                continue
            params = [p.get("n") for p in h["params"]]
            # how is (key, seqno) used: passed on to an inner seek or stored as lo/hi
            uses = []
            for n in hir_walk(h["body"]):
                if n.get("k") == "mcall" and n.get("m") in ("seek", "seek_upper", "seek_lower"):
                    uses.append("%s(%s)" % (n["m"], ", ".join(hir_expr_str(a) for a in n["a"])))
                if n.get("k") == "assign" and hir_expr_str(n["l"]) in ("self.lo", "self.hi"):
                    uses.append("%s = %s" % (hir_expr_str(n["l"]), hir_expr_str(n["r"])))
            seen[kd] = uses
            ok = any(re.search(r"\(key(\.into\(\))?, seqno\)|\(key, seqno\)", u) or "(key.into(), seqno)" in u or "key, seqno" in u for u in uses)
            r.check(ok, "%s::Iter::%s|passes (key, seqno) on unchanged" % (kd, m),
                    "a block-index reader alters the seek key/seqno (%s): results would depend on the pinning / partitioning policy" % uses, "", str(uses))
    for k in ("<table::block_index::BlockIndexIterImpl as table::block_index::BlockIndexIter>::seek_lower",
              "<table::block_index::BlockIndexIterImpl as table::block_index::BlockIndexIter>::seek_upper"):
        h = prog.hir.get(k)
        if not h:
            r.anchor_missing(k)
            continue
        m = k.split("::")[-1]
        arms = {}
        for mm in [n for n in hir_walk(h["body"]) if n.get("k") == "match"]:
            arms = {pat_str(a["pat"]).split("::")[-1]: hir_expr_str(a["b"]) for a in mm["arms"]}
        ok = len(arms) == 3 and all(v == "i.%s(key, seqno)" % m for v in arms.values())
        r.check(ok, "BlockIndexIterImpl::%s|all three variants delegate alike" % m, "dispatch differs per variant: %s" % arms, "", str(arms))
    k = [k for k in prog.hir if k.endswith("BlockIndexImpl as table::block_index::BlockIndex>::forward_reader")]
    if k:
        h = prog.hir[k[0]]
        seeks = [hir_expr_str(n) for n in hir_walk(h["body"]) if n.get("k") == "mcall" and n.get("m") in ("seek_lower", "forward_reader")]
        ok = len(seeks) == 3 and all("(needle, seqno)" in s for s in seeks)
        r.check(ok, "BlockIndexImpl::forward_reader|every variant seeks (needle, seqno)", "forward readers differ: %s" % seeks, "", str(seeks))
    else:
        r.anchor_missing("BlockIndexImpl::forward_reader")
    r.floor(9)


def c11c(prog, R, rid="C11.c"):
    r = R.rule(rid, "hash-index writer and reader agree on the bucket; reader outcomes are mapped safely", "W,B")
    CB = "table::block::hash_index::calculate_bucket_position"
    w = prog.hir.get("table::block::hash_index::builder::Builder::set")
    rd = prog.hir.get("table::block::hash_index::reader::Reader::<'a>::get")
    if not w or not rd:
        r.anchor_missing("hash_index Builder::set / Reader::get")
        return
    cw = [hir_expr_str(n) for n in hir_walk(w["body"]) if n.get("k") == "call" and n.get("p") == CB]
    cr = [hir_expr_str(n) for n in hir_walk(rd["body"]) if n.get("k") == "call" and n.get("p") == CB]
    r.check(cw == ["%s(key, self.bucket_count())" % CB] and cr == ["%s(key, bucket_count)" % CB],
            "hash index|set and get use calculate_bucket_position(key, bucket count)", "bucket computation differs: %s vs %s" % (cw, cr), "", str(cw + cr))
    lets = {n["pat"]["n"]: hir_expr_str(n["init"]) for n in hir_walk(rd["body"]) if n.get("k") == "let" and n["pat"].get("k") == "bind" and "init" in n}
    r.check(lets.get("bucket_count") == "self.0.len() as u32", "hash index reader|bucket count = stored length", "reader bucket count is %s" % lets.get("bucket_count"), "")
    bc = prog.hir.get("table::block::hash_index::builder::Builder::bucket_count")
    s = hir_expr_str(bc["body"]) if bc else ""
    r.check("self.0.len()" in s, "hash index builder|bucket count = buffer length", "builder bucket count is %s" % s, "", s)
    cb = prog.hir.get(CB)
    lets = {n["pat"]["n"]: hir_expr_str(n["init"]) for n in hir_walk(cb["body"]) if n.get("k") == "let" and n["pat"].get("k") == "bind" and "init" in n} if cb else {}
    tail = hir_expr_str(cb["body"]["b"].get("e")) if cb else ""
    r.check(lets.get("hash") == "hash::hash64(key)" and tail in ("(hash % u64::from(bucket_count)) as usize", "(hash % std::convert::From::from(bucket_count)) as usize"),
            "calculate_bucket_position|hash64(key) % bucket_count", "bucket function changed: %s ; %s" % (lets.get("hash"), tail), "", tail)
    pr = prog.hir.get("table::data_block::DataBlock::point_read")
    arms = {}
    for m in [n for n in hir_walk(pr["body"]) if n.get("k") == "match"]:
        if hir_expr_str(m["e"]) == "hash_index_reader.get(needle)":
            for a in m["arms"]:
                arms[pat_str(a["pat"]).split("::")[-1]] = a["b"]
    if not arms:
        r.anchor_missing("match over hash_index_reader.get(needle) in DataBlock::point_read")
        return
    free = arms.get("MARKER_FREE")
    conf = arms.get("MARKER_CONFLICT")
    other = [v for k, v in arms.items() if k not in ("MARKER_FREE", "MARKER_CONFLICT")]
    ok_free = free is not None and any(n.get("k") == "ret" and "None" in hir_expr_str(n.get("e")) for n in hir_walk(free))
    ok_conf = conf is not None and any(n.get("k") == "mcall" and n.get("m") == "seek" and hir_expr_str(n["a"][0]) == "needle" for n in hir_walk(conf))
    ok_idx = len(other) == 1 and any(n.get("k") == "mcall" and n.get("m") == "seek_to_offset" for n in hir_walk(other[0])) and \
        any(n.get("k") == "mcall" and n.get("m") == "get" and "get_binary_index_reader()" in hir_expr_str(n["r"]) for n in hir_walk(other[0]))
    r.check(ok_free and ok_conf and ok_idx, "DataBlock::point_read|FREE -> absent, CONFLICT -> binary search, idx -> seek_to_offset(binary_index[idx])",
            "the hash-index outcome mapping changed (a present key could be reported absent)", "", str(sorted(arms)))
    hash_index_coverage(prog, r)
    r.floor(7)


def hash_index_coverage(prog, r):
    """A stored hash index covers every key of its block.  The reader maps a FREE bucket to `absent`, so a block whose
    restart points do not all fit the u8 pointer space must not store a hash index at all: the encoder registers a key
    only while restart_idx < MAX_POINTERS_FOR_HASH_INDEX, and the trailer stores the index only when
    binary_index_len <= MAX_POINTERS_FOR_HASH_INDEX (two cooperating sites)."""
    enc = next((v for k, v in prog.hir.items() if k.startswith("table::block::encoder::Encoder") and k.endswith("::write")), None)
    tr = next((v for k, v in prog.hir.items() if k.startswith("table::block::trailer::Trailer") and k.endswith("::write")), None)
    if not enc or not tr:
        r.anchor_missing("Encoder::write / Trailer::write")
        return
    sets = hir_sites(enc["body"], lambda n: n.get("k") == "mcall" and n.get("m") == "set" and "hash_index_builder" in hir_expr_str(n["r"]))
    M = "table::block::hash_index::builder::MAX_POINTERS_FOR_HASH_INDEX"
    lim = [g for s in sets for g in s.guard_texts() if "MAX_POINTERS_FOR_HASH_INDEX" in g]
    ok_enc = bool(sets) and all(any(g == "(restart_idx < %s)" % M for g in s.guard_texts()) for s in sets)
    r.check(ok_enc, "Encoder::write|keys are registered in the hash index while restart_idx < MAX_POINTERS",
            "registration guard changed: %s" % lim, "", str(lim))
    stores = hir_sites(tr["body"], lambda n: n.get("k") == "mcall" and n.get("m") == "write" and "hash_index_builder" in hir_expr_str(n["r"]))
    ok_tr = bool(stores) and all(any(g == "(binary_index_len <= %s)" % M for g in s.guard_texts()) and
                                 any("bucket_count() > 0" in g for g in s.guard_texts()) for s in stores)
    r.check(ok_tr, "Trailer::write|hash index stored only if all restart points fit (binary_index_len <= MAX_POINTERS)",
            "the hash index is stored although keys beyond restart point %s were never registered in it: the reader answers "
            "`absent` for them (FREE bucket) and older versions resurface" % "MAX_POINTERS_FOR_HASH_INDEX", "",
            str([s.guard_texts() for s in stores]))
