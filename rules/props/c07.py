"""C07 — every published tree version is structurally sound and matches its manifest.

Decided: C07.a–f of DESIGN.md §3. Not decided: soundness of real versions after real histories."""
import re

from rules.engine import (control_deps_transitive, switch_condition, origins, origin_callees, deep_origins, short, hir_walk, hir_expr_str, hir_sites, must_pass,
                          success_cuts, witness_path, describe_path, codec_skeleton, split_sections, compare_skeletons,
                          hir_tail_name)
from rules import anchors as A

EXPLANATION = (
    "Static decision of the structural-soundness clauses: (a) every Run::new outside optimize_runs is fed from an "
    "order-preserving source (one existing run filtered/retained, the ordered result list of a MultiWriter, the persisted "
    "run list, a parameter tabled with its producers) and never from a cross-run iterator (Version::iter_tables, flat_map "
    "over runs); Choice::Move sites are guarded; (b) MultiWriter::write rotates only between user keys (the rotate call is "
    "guarded by the is_next_key comparison); (c) Writer::write updates lowest/highest seqno on every success path, sets "
    "first_key when unset and pushes the item; spill_block registers (last key, last seqno, handle) and updates item_count / "
    "last_key / data_block_count on every non-empty path; finish spills before writing the index; (d) the table meta block: "
    "literal keys strictly ascending, every key read is written, key <-> source/destination pairing as specified; blob-file "
    "meta likewise; every archive section read is started by a writer; (e) the version file codec agrees section by section "
    "(C04.a); (f) leveled compaction joins only *contained* current-level tables to a next-level window and takes all "
    "overlapping tables of the target level for L0. Not decided: soundness of actual versions after actual histories.")
KINDS = ["D", "H", "G", "P"]
LEVEL_TEXT = ("Static def-use / guard / must-write / table-agreement analysis of the code that builds runs, tables and their "
              "metadata. These are necessary conditions of structural soundness that hold for every history by construction "
              "of the code; the soundness of concrete versions (which needs table contents) is not decided.")

RUN_NEW = "version::run::Run::new"
CROSS_RUN = ("version::Version::iter_tables", "std::iter::Iterator::flat_map", "std::iter::Iterator::flatten",
             "version::Level::list_ids")

# parameters that reach Run::new: (function, parameter name) -> how its callers produce it
PARAM_TABLE = {
    ("version::Version::with_new_l0_run", "run"): "flush_to_tables / ingestion: MultiWriter::finish results mapped in order through Table::recover",
    ("version::Version::with_merge", "new_tables"): "compaction finish: consume_writer = MultiWriter::finish results in order",
    ("version::Version::from_recovery", "recovery"): "persisted run lists, decoded in file order",
}


def run(prog, R, tier="quick", only_rule=None):
    c07a(prog, R)
    c07b(prog, R)
    c07c(prog, R)
    c07d(prog, R)
    from rules.props import c04
    c04.c04a(prog, R, rid="C07.e")
    c07f(prog, R)
    # precedence between runs: bulk-ingested tables enter on top only after everything older was flushed beneath them
    from rules.props import c14
    c14.c14b(prog, R, rid="C07.g")
    c07h(prog, R)
    # newer L0 tables never overtake older ones on the way down (shared with C06.l)
    from rules.props import c06
    c06.c06l(prog, R, rid="C07.i")
    c06.c06p(prog, R, rid="C07.l")
    # "every file the version names exists": nothing is marked deleted before the version without it is published
    from rules.props import c05
    c05.c05c(prog, R, rid="C07.m")
    # "matches its manifest": a version is visible in memory only after its file and `current` were written
    from rules.props import c02
    c02.c02a(prog, R, rid="C07.j")
    # seqnos are never rewritten to 0 by a merge (a deeper level may still hold an older version with a real seqno)
    c02.c02f(prog, R, rid="C07.k")


def c07a(prog, R, rid="C07.a"):
    r = R.rule(rid, "runs are built only from order-preserving sources", "D,W")
    sites = [c for c in prog.all_calls(RUN_NEW)]
    n = 0
    for c in sites:
        g = c.fn
        root = prog.fns.get(g.root, g)
        if root.path.startswith("version::optimize::"):
            continue
        n += 1
        names = origin_callees(g, c.args[0], depth=6)
        bad = sorted(x for x in names if x in CROSS_RUN)
        key = "%s|Run::new argument" % g.path
        if bad:
            r.bad(key, "a run is built from a cross-run source (%s): tables of different runs overlap and are not ordered "
                       "relative to each other, partition_point lookups then miss keys" % ", ".join(short(b) for b in bad), g.where(c.bb),
                  str(sorted(short(x) for x in names)))
            continue
        # where does it come from?
        do = deep_origins(prog, g, c.args[0])
        params = [(gg, o) for (gg, o) in do if o.kind == "param"]
        ok = True
        why = []
        for (gg, o) in params:
            pname = gg.local_name(o.what)
            if gg.kind == "closure":
                why.append("closure item of an iterator over runs/persisted runs")
                continue
            if (gg.path, pname) in PARAM_TABLE:
                why.append("parameter %s (%s)" % (pname, PARAM_TABLE[(gg.path, pname)]))
            else:
                ok = False
                why.append("untabled parameter %s of %s" % (pname, gg.path))
        r.check(ok, key, "a run is built from a parameter whose producers are not known to be order-preserving: %s" % why,
                g.where(c.bb), "; ".join(why) or "derives from: %s" % sorted(short(x) for x in names)[:6])
    if n < 4:
        r.anchor_missing("Run::new call sites outside optimize_runs (found %d)" % n)
    # the tabled parameters: their call sites pass MultiWriter::finish-derived values
    checks = [
        (A.ABSTRACT_FLUSH, "abstract_tree::AbstractTree::register_tables", 1, ("abstract_tree::AbstractTree::flush_to_tables",)),
        (A.STD_FINISH, "version::Version::with_merge", 2, ("compaction::flavour::StandardCompaction::consume_writer",)),
        (A.RELOC_FINISH, "version::Version::with_merge", 2, ("compaction::flavour::StandardCompaction::consume_writer",)),
    ]
    for (fn_, callee, argi, producers) in checks:
        f = prog.need(fn_)
        hit = False
        for g in prog.family(f):
            for c in g.calls_to(callee):
                names = set()
                for (gg, o) in deep_origins(prog, g, c.args[argi]):
                    if o.kind == "call":
                        names.add(o.extra.sres)
                if names & set(producers):
                    hit = True
        r.check(hit, "%s|%s(arg %d) comes from %s" % (fn_, short(callee), argi, "/".join(short(p) for p in producers)),
                "the tables handed to the version transition do not come (in order) from the table writer", f.where())
    # consume_writer / flush_to_tables keep the writer's order: into_iter().map(recover).collect(), no sort/rev
    for name in ("compaction::flavour::StandardCompaction::consume_writer", A.TREE_FLUSH_TO_TABLES, A.BLOB_FLUSH_TO_TABLES):
        f = prog.need(name)
        bad = [c.sres for g in prog.family(f) for c in g.calls if c.sres and re.search(r"::(rev|sort\w*|reverse|dedup\w*)$", c.sres)]
        fin = [c for c in f.calls if c.sres == A.TABLE_MULTI_FINISH]
        r.check(bool(fin) and not bad, "%s|writer results mapped in order" % name,
                "the list of written tables is reordered before it becomes a run", f.where(), str(bad))
    # Choice::Move sites are guarded by a hidden-set / overlap test (no blind moves)
    for p, f in sorted(prog.fns.items()):
        for b in f.blocks:
            for st in b["stmts"]:
                if st["k"] == "assign" and st["rv"]["k"] == "agg" and st["rv"].get("adt") == "compaction::Choice" and st["rv"].get("variant") == "Move":
                    r.ok("%s|constructs Choice::Move" % prog.fns.get(f.root, f).path, "moved run by run (with_moved keeps one run per source run)",
                         nontrivial=False)
    # moved runs come from a level above, i.e. they are newer than anything in the destination level: they go in FRONT of the
    # destination's runs (read order within a level is run order; optimize_runs only re-packs a table behind runs it overlaps)
    wm = prog.need("version::Version::with_moved")
    ins = [c for c in wm.calls if c.sres.endswith(("Vec::splice", "Vec::insert", "Vec::extend", "Vec::append", "Extend<T>>::extend", "Vec::extend_from_slice"))
           or (c.sres.endswith("Vec::push") and not any(o.kind == "call" and o.extra.sres.endswith("Level::from_runs") for a in c.args[1:] for o in origins(wm, a)))]
    front = False
    for c in ins:
        if c.sres.endswith("Vec::splice"):
            for o in origins(wm, c.args[1]):
                if o.kind == "agg" and "Range" in str(o.what) and all(x.get("o") == "const" and str(x.get("v")) == "0" for x in o.extra.get("ops", [])):
                    front = True
        if c.sres.endswith("Vec::insert") and c.args[1].get("o") == "const" and str(c.args[1].get("v")) == "0":
            front = True
    r.check(front and len(ins) == 1, "version::Version::with_moved|moved runs are spliced in at the front of the destination level",
            "with_moved does not put the moved (newer) runs in front of the destination level's runs (%s): an older table of the "
            "destination level is consulted first and its value shadows the newer one" % [short(c.sres) for c in ins], wm.where(),
            str([short(c.sres) for c in ins]))
    # every transition hands the whole, unreordered list of a level's runs to optimize_runs and builds the level from its
    # result: run order within a level is read precedence (newest first)
    from rules.props.c06 import _chain_calls
    REORD = re.compile(r"::(partition\w*|chain|rev|reverse|sort\w*|zip|skip\w*|take\w*|step_by|swap\w*|rotate_\w+)$")
    for name in ("version::Version::with_dropped", "version::Version::with_merge", "version::Version::with_moved", "version::Version::with_new_l0_run"):
        f = prog.need(name)
        opt = [c for c in f.calls if c.sres == "version::optimize::optimize_runs"]
        fr = [c for c in f.calls if c.sres == "version::Level::from_runs"]
        bad = sorted({short(x.sres) for c in opt for x in _chain_calls(prog, f, c.args[0]) if REORD.search(x.sres or "")})
        built = bool(fr) and all(any(x.sres == "version::optimize::optimize_runs" for x in _chain_calls(prog, f, c.args[0])) for c in fr
                                 if not all(o.kind == "call" and o.extra.sres.endswith("Vec::new") for o in origins(f, c.args[0])))
        r.check(bool(opt) and not bad and built, "%s|a level is rebuilt from optimize_runs(all of its runs, in order)" % name,
                "a transition reorders / splits the runs of a level (%s) or does not build the level from the result of optimize_runs: "
                "an older run can end up in front of a newer one" % (bad or "level not built from optimize_runs"), f.where(), str(bad))
    r.floor(15)


def c07b(prog, R):
    r = R.rule("C07.b", "all versions of a key stay in one table (rotation only between keys)", "K")
    name = "table::multi_writer::MultiWriter::write"
    h = prog.hir.get(name)
    if h is None:
        r.anchor_missing("HIR of " + name)
        return
    rot = hir_sites(h["body"], lambda n: n.get("k") == "mcall" and n.get("m") == "rotate")
    if not rot:
        r.anchor_missing("rotate() call in MultiWriter::write")
    lets = {n["pat"]["n"]: hir_expr_str(n["init"], 200) for n in hir_walk(h["body"]) if n.get("k") == "let"
            and n["pat"].get("k") == "bind" and "init" in n}
    for s in rot:
        g = s.guard_texts()
        r.check("is_next_key" in g, "%s|rotate() guarded by is_next_key" % name,
                "the table writer can rotate in the middle of a key's versions: the versions of one key end up in two tables "
                "of one run (overlapping key ranges)", "", " & ".join(g))
    d = lets.get("is_next_key")
    ok = d == "(self.current_key.as_ref() < std::option::Option::Some(&item.key.user_key))"
    r.check(ok, "%s|is_next_key := current_key < Some(item.user_key)" % name, "is_next_key is no longer `current key < item key`", "", str(d))
    # rotate() finishes the old writer (so its metadata is complete) and starts the new one with a fresh id (C16.e)
    f = prog.need("table::multi_writer::MultiWriter::rotate")
    r.check(bool(f.calls_to(A.TABLE_WRITER_FINISH)), "%s|finishes the previous writer" % f.path, "rotate no longer finishes the old writer", f.where())
    r.floor(3)


def store_blocks(f, field_tag):
    """Blocks containing a store into a place whose last projection is the given field (name:ADT)."""
    out = set()
    for i, b in enumerate(f.blocks):
        if b.get("cleanup"):
            continue
        for st in b["stmts"]:
            if st["k"] == "assign" and "p" in st["to"] and st["to"]["p"][-1] == field_tag:
                out.add(i)
            # `field += x` on a newtype: AddAssign::add_assign(&mut field, x)
            if st["k"] == "assign" and st["rv"]["k"] == "ref" and st["rv"].get("mut") and st["rv"]["place"].get("p") \
                    and st["rv"]["place"]["p"][-1] == field_tag and "p" not in st["to"]:
                ref_local = st["to"]["l"]
                for c in f.calls:
                    if (c.path or "").endswith("_assign") and c.args and c.args[0].get("l") == ref_local:
                        out.add(c.bb)
        t = b["term"]
        if t["k"] == "call" and t.get("dest") and "p" in t["dest"] and t["dest"]["p"][-1] == field_tag:
            out.add(i)
    return out


def c07c(prog, R, rid="C07.c"):
    r = R.rule(rid, "the table writer's metadata follows the stream on every path", "P,W")
    M = "table::writer::meta::Metadata"
    f = prog.need("table::writer::Writer::write")
    for fld in ("lowest_seqno", "highest_seqno"):
        sb = store_blocks(f, ".%s:%s" % (fld, M))
        ok = bool(sb) and must_pass(f, sb)
        if not ok:
            cb, ce = success_cuts(f)
            w = witness_path(f, [0], f.return_blocks(), cut_blocks=set(cb) | sb, cut_edges=ce)
        r.check(ok, "%s|updates meta.%s on every success path" % (f.path, fld),
                "an item can be written without updating meta.%s: the table's recorded seqno range no longer covers its "
                "contents (point reads / get_highest_seqno go wrong)" % fld, f.where(), "" if ok else "path: %s" % describe_path(f, w or []))
    push = {c.bb for c in f.calls if c.sres == "std::vec::Vec::push" and c.arg_tys and "value::InternalValue" in c.arg_tys[0]}
    r.check(bool(push) and must_pass(f, push), "%s|pushes the item on every success path" % f.path,
            "an item can be acknowledged by the writer without being buffered", f.where())
    h = prog.hir.get(f.path)
    assigns = {hir_expr_str(n["l"]): hir_expr_str(n["r"], 200) for n in hir_walk(h["body"]) if n.get("k") == "assign"}
    lets = {n["pat"]["n"]: hir_expr_str(n["init"], 200) for n in hir_walk(h["body"]) if n.get("k") == "let" and n["pat"].get("k") == "bind" and "init" in n}
    ok = assigns.get("self.meta.lowest_seqno") == "self.meta.lowest_seqno.min(seqno)" and \
        assigns.get("self.meta.highest_seqno") == "self.meta.highest_seqno.max(seqno)" and lets.get("seqno") == "item.key.seqno"
    r.check(ok, "%s|lowest = min(lowest, item seqno), highest = max(highest, item seqno)" % f.path,
            "the seqno range update is not min/max over the item's seqno", f.where(),
            "%s ; %s ; seqno := %s" % (assigns.get("self.meta.lowest_seqno"), assigns.get("self.meta.highest_seqno"), lets.get("seqno")))
    fk = hir_sites(h["body"], lambda n: n.get("k") == "assign" and hir_expr_str(n["l"]) == "self.meta.first_key")
    ok = bool(fk) and all(s.guard_texts() == ["self.meta.first_key.is_none()"] for s in fk) and \
        all(hir_expr_str(s.node["r"]) == "std::option::Option::Some(user_key.clone())" for s in fk) and lets.get("user_key") == "item.key.user_key.clone()"
    r.check(ok, "%s|first_key set once, from the item's user key" % f.path, "first_key handling changed", f.where())
    # per-stream counters must not be decided by block-local state: whatever spill_block resets (the chunk buffer, its
    # size) starts from scratch at every block boundary, so a counter that looks at it miscounts items that straddle one
    g0 = prog.need("table::writer::Writer::spill_block")
    reset = set()
    for c in g0.calls:
        if c.sres.endswith(("Vec::clear", "VecDeque::clear")) and c.args:
            for o in origins(g0, c.args[0]):
                if o.kind == "param" and o.what == 1 and o.path:
                    reset.add(o.path[0])
    for b_ in g0.blocks:
        for st in b_["stmts"]:
            if st["k"] == "assign" and "p" in st["to"] and st["rv"]["k"] == "use" and st["rv"]["op"].get("o") == "const":
                flds = [e[1:].split(":")[0] for e in st["to"]["p"] if e.startswith(".")]
                if flds and flds[0] != "meta":
                    reset.add(flds[0])
    r.check({"chunk", "chunk_size"} <= reset, "%s|resets the block-local buffer (chunk, chunk_size)" % g0.path,
            "spill_block no longer resets chunk / chunk_size (found %s)" % sorted(reset), g0.where(), str(sorted(reset)))

    def self_fields(fn_, op, depth=6, seen=None):
        seen = seen if seen is not None else set()
        out = set()
        if depth < 0 or op is None:
            return out
        for o in origins(fn_, op):
            if o.kind == "param" and o.what == 1 and o.path:
                out.add(o.path[0])
            elif o.kind == "call" and o.extra.bb not in seen:
                seen.add(o.extra.bb)
                for a_ in o.extra.args:
                    out |= self_fields(fn_, a_, depth - 1, seen)
            elif o.kind in ("bin", "un", "discr", "other") and isinstance(o.extra, dict):
                for k_ in ("a", "b", "op"):
                    if isinstance(o.extra.get(k_), dict):
                        out |= self_fields(fn_, o.extra[k_], depth - 1, seen)
                if o.kind == "discr" and isinstance(o.extra.get("place"), dict):
                    out |= self_fields(fn_, {"o": "copy", "l": o.extra["place"]["l"], "pl": o.extra["place"]}, depth - 1, seen)
    
        return out
    counters = ("tombstone_count", "weak_tombstone_count", "weak_tombstone_reclaimable_count", "key_count", "first_key")
    for fld in counters:
        sb = store_blocks(f, ".%s:%s" % (fld, M))
        if not sb:
            r.anchor_missing("store into meta.%s in Writer::write" % fld)
            continue
        used = set()
        for bb in sb:
            for (a_, s_) in control_deps_transitive(f, bb):
                t_ = f.blocks[a_]["term"]
                if t_["k"] == "switch":
                    used |= self_fields(f, t_["discr"])
        bad = sorted(used & reset)
        r.check(not bad, "%s|meta.%s is decided by the item and stream-persistent state only" % (f.path, fld),
                "meta.%s is updated under a condition that reads block-local state (%s), which spill_block resets: items that "
                "straddle a block boundary are miscounted and the stored metadata no longer equals the stream's" % (fld, bad),
                f.where(), "reads %s" % sorted(used))
    # spill_block
    g = prog.need("table::writer::Writer::spill_block")
    wi = g.calls_to("table::block::Block::write_into")
    if not wi:
        r.anchor_missing("Block::write_into in spill_block")
    for fld in ("item_count", "last_key", "data_block_count", "file_pos"):
        sb = store_blocks(g, ".%s:%s" % (fld, M))
        ok = bool(sb) and bool(wi) and must_pass(g, sb, from_bbs=[wi[0].bb])
        r.check(ok, "%s|updates meta.%s after every block written" % (g.path, fld),
                "a data block can be written without updating meta.%s" % fld, g.where())
    reg = [c for c in g.calls if c.sres and c.sres.endswith("::register_data_block")]
    ok = bool(reg) and bool(wi) and must_pass(g, {c.bb for c in reg}, from_bbs=[wi[0].bb])
    r.check(ok, "%s|registers every written block in the index" % g.path, "a data block can be written without an index entry", g.where())
    hh = prog.hir.get(g.path)
    kb = [n for n in hir_walk(hh["body"]) if n.get("k") == "call" and (n.get("p") or "").endswith("KeyedBlockHandle::new")]
    ok = bool(kb) and all(hir_expr_str(n["a"][0]) == "last.key.user_key.clone()" and hir_expr_str(n["a"][1]) == "last.key.seqno" for n in kb)
    r.check(ok, "%s|index entry = (last key, last seqno, handle)" % g.path,
            "the index entry of a block is not its last key/seqno", g.where(), str([hir_expr_str(n, 200) for n in kb]))
    bh = [n for n in hir_walk(hh["body"]) if n.get("k") == "call" and (n.get("p") or "").endswith("BlockHandle::new")
          and not (n.get("p") or "").endswith("KeyedBlockHandle::new")]
    ok = bool(bh) and all(hir_expr_str(n["a"][0]) == "self.meta.file_pos" and hir_expr_str(n["a"][1]) == "bytes_written" for n in bh)
    r.check(ok, "%s|handle = (file_pos before the block, bytes_written)" % g.path, "the block handle does not point at the block just written", g.where())
    # file_pos advanced after the handle was taken
    regb = [c.bb for c in reg]
    fp = store_blocks(g, ".file_pos:%s" % M)
    ok = bool(regb) and bool(fp) and all(any(b in g.reach_after(rb) for b in fp) and not any(g.dominates(b, rb) and b != rb for b in fp) for rb in regb)
    r.check(ok, "%s|file_pos advanced only after the index entry was built" % g.path, "file_pos is advanced before the handle is computed", g.where())
    fin = prog.need(A.TABLE_WRITER_FINISH)
    sp = fin.calls_to("table::writer::Writer::spill_block")
    ix = [c for c in fin.calls if c.sres and c.sres.endswith("BlockIndexWriter::finish")]
    ok = bool(sp) and bool(ix) and all(fin.dominates(sp[0].bb, c.bb) for c in ix)
    r.check(ok, "%s|spills the last block before the index is written" % fin.path, "finish writes the index before the last data block", fin.where())
    r.floor(20)


META_PAIRS = {
    "seqno#max": "highest_seqno", "seqno#min": "lowest_seqno", "key#min": "first_key", "key#max": "last_key",
    "item_count": "item_count", "tombstone_count": "tombstone_count", "weak_tombstone_count": "weak_tombstone_count",
    "weak_tombstone_reclaimable": "weak_tombstone_reclaimable_count", "block_count#data": "data_block_count",
    "file_size": "file_pos", "table_id": "table_id", "key_count": "key_count", "user_data_size": "uncompressed_size",
    "block_count#index": "index_block_count", "block_count#filter": "filter_block_count",
    "compression#data": "data_block_compression", "compression#index": "index_block_compression",
}
READ_DEST = {
    "table_id": "id", "item_count": "item_count", "tombstone_count": "tombstone_count", "block_count#data": "data_block_count",
    "block_count#index": "index_block_count", "file_size": "file_size", "weak_tombstone_count": "weak_tombstone_count",
    "weak_tombstone_reclaimable": "weak_tombstone_reclaimable", "seqno#min": "min", "seqno#max": "max",
    "compression#data": "data_block_compression", "compression#index": "index_block_compression", "created_at": "created_at",
}


def lit_of(n):
    while isinstance(n, dict) and n.get("k") in ("ref", "un", "cast"):
        n = n.get("e")
    if isinstance(n, dict) and n.get("k") == "lit":
        return n.get("s", n.get("bs"))
    return None


def c07d(prog, R, rid="C07.d"):
    r = R.rule(rid, "meta tables agree between writer and reader; keys sorted; sections exist", "G")
    w = prog.hir.get(A.TABLE_WRITER_FINISH)
    rd = prog.hir.get("table::meta::ParsedMeta::load_with_handle")
    if not w or not rd:
        r.anchor_missing("Writer::finish / ParsedMeta::load_with_handle HIR")
        return
    written = []
    for n in hir_walk(w["body"]):
        if n.get("k") == "call" and (n.get("p") or "").endswith("finish::meta") and len(n["a"]) == 2:
            k = lit_of(n["a"][0])
            if k is not None:
                written.append((k, n["a"][1]))
    keys = [k for k, _v in written]
    r.check(len(keys) >= 25 and all(a.encode() < b.encode() for a, b in zip(keys, keys[1:])),
            "Writer::finish|%d meta keys strictly ascending" % len(keys),
            "the meta block keys are not strictly ascending: the block is point-read by binary search, unsorted keys become "
            "unfindable (the in-code check is debug-only)", "", str(keys))
    # writer pairing
    for k, v in written:
        if k in META_PAIRS:
            src = hir_expr_str(v, 200)
            want = META_PAIRS[k]
            ok = re.search(r"\b%s\b" % re.escape(want), src) is not None
            r.check(ok, "Writer::finish|meta[%s] <- %s" % (k, want),
                    "meta key %s is written from %s instead of %s (same-width swap)" % (k, src, want), "", src)
    # reader: every key read is written; destination pairing
    reads = []
    for s in hir_sites(rd["body"], lambda n: n.get("k") == "mcall" and n.get("m") == "point_read"):
        k = lit_of(s.node["a"][0]) if s.node["a"] else None
        if k is not None:
            reads.append((k, s))
    missing = sorted({k for k, _s in reads} - set(keys))
    r.check(len(reads) >= 15 and not missing, "ParsedMeta::load_with_handle|every key read (%d) is written" % len(reads),
            "the reader asks for meta keys the writer never writes: %s" % missing, "", str(sorted({k for k, _ in reads})))
    # destination names via enclosing let
    lets = []

    def collect(n, name=None):
        if isinstance(n, list):
            for x in n:
                collect(x, name)
            return
        if not isinstance(n, dict):
            return
        if n.get("k") == "let" and n["pat"].get("k") == "bind" and "init" in n:
            collect(n["init"], n["pat"]["n"])
            return
        if n.get("k") == "mcall" and n.get("m") == "point_read" and n["a"]:
            k = lit_of(n["a"][0])
            if k:
                lets.append((k, name))
        for kk, v in n.items():
            if isinstance(v, (dict, list)) and kk != "pat":
                # a nested `let bytes = ..` is the macro's temp: keep the outer name for macro temps
                collect(v, name)
    collect(rd["body"])
    dest = {}
    for k, nm in lets:
        dest.setdefault(k, nm)
    for k, want in READ_DEST.items():
        got = dest.get(k)
        if got in ("bytes", None):
            # the macro / block binds a temp named `bytes`; find the outer let by position: skip silently if unresolved
            continue
        r.check(got == want, "ParsedMeta::load_with_handle|meta[%s] -> %s" % (k, want),
                "meta key %s is read into `%s` instead of `%s` (same-width swap)" % (k, got, want), "")
    # seqnos = (min, max); key_range = (key#min, key#max)
    s = hir_expr_str(rd["body"], 100000)
    tuples = [hir_expr_str(n) for n in hir_walk(rd["body"]) if n.get("k") == "tuple" and len(n["a"]) == 2]
    r.check("(min, max)" in tuples, "ParsedMeta::load_with_handle|seqnos = (min, max)", "seqnos tuple is not (min, max)", "", str(tuples)[:200])
    kr = [n for n in hir_walk(rd["body"]) if n.get("k") == "call" and (n.get("p") or "").endswith("KeyRange::new")]
    ok = False
    for n in kr:
        t = n["a"][0]
        if t.get("k") == "tuple" and len(t["a"]) == 2:
            ks = []
            for el in t["a"]:
                kk = [lit_of(m["a"][0]) for m in hir_walk(el) if m.get("k") == "mcall" and m.get("m") == "point_read"]
                ks.append(kk[0] if kk else None)
            ok = ks == ["key#min", "key#max"]
    r.check(ok, "ParsedMeta::load_with_handle|key_range = (key#min, key#max)", "key range is built from (max, min)", "")
    # archive sections: every section read somewhere is started by some writer
    started, read = set(), set()
    for path, h in prog.hir.items():
        for t in codec_skeleton(h["body"], "w"):
            if t[0] == "section":
                started.add(t[1])
        for t in codec_skeleton(h["body"], "r"):
            if t[0] == "section":
                read.add(t[1])
    r.check(len(read) >= 10 and read <= started, "archive sections|every section read (%d) is started by a writer (%d)" % (len(read), len(started)),
            "sections read but never written: %s" % sorted(read - started), "", "read=%s" % sorted(read))
    r.floor(20)


def c07f(prog, R, rid="C07.f"):
    r = R.rule(rid, "merge output stays inside the pulled-in range (leveled picker)", "B,K")
    name = "compaction::leveled::pick_minimal_compaction"
    h = prog.hir.get(name)
    if h is None:
        r.anchor_missing("HIR of " + name)
        return
    lets = {}
    for n in hir_walk(h["body"]):
        if n.get("k") == "let" and n["pat"].get("k") == "bind" and "init" in n:
            lets[n["pat"]["n"]] = hir_expr_str(n["init"], 200)
    d = lets.get("curr_level_pull_in")
    r.check(d == "curr_run.get_contained(&key_range)", "%s|current-level pull-in = get_contained(window range)" % name,
            "current-level tables are joined by overlap instead of containment: the merge output can exceed the next-level "
            "window and overlap its neighbours (level no longer one disjoint run)", "", str(d))
    # trivial move only when nothing in the next run overlaps
    s = hir_expr_str(h["body"], 100000)
    calls = [hir_expr_str(n) for n in hir_walk(h["body"]) if n.get("k") == "mcall" and n.get("m") == "is_empty"]
    r.check("next_run.get_overlapping(&key_range).is_empty()" in calls, "%s|trivial move only if no next-level table overlaps" % name,
            "trivial move no longer tests overlap with the next level", "", str(calls))
    # the key range a level's overlap queries are made with is the true hull of its runs: KeyRange::aggregate keeps
    # min and max independently (two unconditional updates per element)
    ag = prog.hir.get("key_range::KeyRange::aggregate")
    if ag is None:
        r.anchor_missing("KeyRange::aggregate")
    else:
        fors = [n for n in hir_walk(ag["body"]) if n.get("k") == "for"]
        ok = len(fors) == 1
        detail = ""
        if ok:
            sites = hir_sites(fors[0]["b"], lambda n: n.get("k") == "assign" and hir_expr_str(n["l"]) in ("min", "max"))
            table = {hir_expr_str(s.node["l"]): s.guard_texts() for s in sites}
            lets = [(n["pat"]["n"], hir_expr_str(n["init"])) for n in hir_walk(fors[0]["b"]) if n.get("k") == "let" and n["pat"].get("k") == "bind" and "init" in n]
            detail = "%s ; lets %s" % (table, lets)
            # each update guarded by exactly its own comparison (no else-chaining between them)
            ok = table.get("min") == ["(x < min)"] and table.get("max") == ["(x > max)"] and \
                lets == [("x", "other.min()"), ("x", "other.max()")]
        r.check(ok, "KeyRange::aggregate|min and max are updated independently (hull of all ranges)",
                "the aggregated key range of several runs is not their hull: overlap queries made with it (leveled L0 merge) miss "
                "tables, leaving older data above newer data", "", detail)
    # L0 -> L1: all overlapping tables of the target level are taken
    ch = [k for k in prog.hir if k.startswith("<compaction::leveled::Strategy as compaction::CompactionStrategy>::choose")]
    ok = False
    for k in ch:
        for n in hir_walk(prog.hir[k]["body"]):
            if n.get("k") == "mcall" and n.get("m") == "get_overlapping":
                ok = True
    r.check(ok, "leveled::Strategy::choose|L0 compaction takes get_overlapping(target level)", "L0->L1 no longer pulls in every overlapping L1 table", "")
    r.floor(4)


LEVELED_CHOOSE = "<compaction::leveled::Strategy as compaction::CompactionStrategy>::choose"


def _true_edge(f, a, s):
    t = f.blocks[a]["term"]
    zero = [tg for (v, tg) in t.get("targets", []) if str(v) == "0"]
    return bool(zero) and s not in zero


def _chain_callees(prog, f, op, depth=8):
    """origin_callees plus the callees of the closures handed to the calls on the way (flat_map(|run| run.get_overlapping(..)))."""
    out = set()
    seen = set()

    def walk(op_, d):
        if d < 0 or op_ is None:
            return
        for o in origins(f, op_):
            if o.kind == "call":
                c = o.extra
                if c.bb in seen:
                    continue
                seen.add(c.bb)
                out.add(c.sres)
                for cb in prog.callbacks(c):
                    g = prog.fns.get(cb)
                    if g is not None:
                        out.update(x.sres for x in g.calls)
                for a_ in c.args:
                    walk(a_, d - 1)
    walk(op, depth)
    return out


def c07h(prog, R, rid="C07.h"):
    """A trivial move re-labels tables as belonging to a deeper level without rewriting them.  It keeps "the table consulted
    first holds the newer versions" only if nothing between the source and the destination, and nothing in the destination,
    overlaps the moved key range, and the moved tables are disjoint among themselves."""
    r = R.rule(rid, "the leveled strategy moves tables down only into a gap", "K,D")
    f = prog.fn(LEVELED_CHOOSE)
    if f is None:
        r.anchor_missing(LEVELED_CHOOSE)
        return
    moves = []
    for i, b in enumerate(f.blocks):
        for st in b["stmts"]:
            if st["k"] == "assign" and st["rv"]["k"] == "agg" and st["rv"].get("variant") == "Move":
                moves.append((i, st["rv"]))
    if len(moves) < 4:
        r.anchor_missing("Choice::Move sites in leveled choose (found %d, confirmed 4)" % len(moves))
    # licensing edges
    no_overlap, disjoint, inter_empty = set(), set(), set()
    any_calls = []
    for a in range(f.n):
        t = f.blocks[a]["term"]
        if f.is_cleanup(a) or t["k"] != "switch":
            continue
        for o in switch_condition(f, a):
            for s_ in f.succ(a):
                te = _true_edge(f, a, s_)
                if o.kind != "call":
                    continue
                c = o.extra
                nm = c.sres
                if nm == "key_range::KeyRange::overlaps_with_key_range" and not te:
                    no_overlap.add((a, s_))
                elif nm.endswith("Option::is_none") and te and "version::run::Run::get_overlapping" in _chain_callees(prog, f, c.args[0]):
                    no_overlap.add((a, s_))
                elif nm.endswith("Vec::is_empty") and te and "version::run::Run::get_overlapping" in _chain_callees(prog, f, c.args[0]):
                    no_overlap.add((a, s_))
                elif nm == "compaction::leveled::pick_minimal_compaction" and te and o.path and o.path[-1] == "1":
                    no_overlap.add((a, s_))      # the can_trivial_move flag (its computation: C07.f)
                elif nm.endswith("GenericLevel::is_disjoint") and te:
                    disjoint.add((a, s_))
                elif nm == "std::iter::Iterator::any" and not te:
                    inter_empty.add((a, s_))
                    any_calls.append(((a, s_), c))
    licensing_any = []
    for k, (bb, rv) in enumerate(moves):
        key = "%s|Move #%d" % (LEVELED_CHOOSE, k)
        r.check(bb not in f.reach([0], cut_edges=no_overlap), key + " only when nothing in the destination overlaps",
                "tables can be moved into a level although a table there overlaps them (a run with overlapping tables, or newer data "
                "underneath older)", f.where(bb))
        r.check(bb not in f.reach([0], cut_edges=disjoint), key + " only when the moved level is disjoint",
                "an overlapping (multi-run) level can be moved down as one run", f.where(bb))
        # a move that skips levels (destination = last level) needs the levels in between to be empty
        di = rv["fields"].index("0") if "0" in rv.get("fields", []) else 0
        inp = origins(f, rv["ops"][di])
        to_last = False
        for o in inp:
            if o.kind == "agg" and isinstance(o.extra, dict) and "dest_level" in o.extra.get("fields", []):
                dl = o.extra["ops"][o.extra["fields"].index("dest_level")]
                if "version::Version::level_count" in origin_callees(f, dl, depth=6):
                    to_last = True
        if to_last:
            lic = [c_ for (e_, c_) in any_calls if bb not in f.reach([0], cut_edges={e_})]
            licensing_any.extend(lic)
            r.check(bool(lic), key + " into the last level only when every level in between is empty",
                    "L0 can be moved into the last level underneath data that sits in an intermediary level", f.where(bb))
    # the emptiness test looks at every intermediary level and at nothing but its emptiness
    ok = bool(licensing_any)
    detail = ""
    for c in licensing_any:
        rng = origins(f, c.args[0])
        okr = False
        for o in rng:
            if o.kind == "agg" and isinstance(o.extra, dict) and "Range" in str(o.what):
                st_, en_ = o.extra["ops"][0], o.extra["ops"][1]
                okr = st_.get("o") == "const" and str(st_.get("v")) == "1" and "version::Version::level_count" in origin_callees(f, en_, depth=6)
        cbs = [prog.fns[x] for x in prog.callbacks(c) if x in prog.fns]
        okc = bool(cbs)
        for g in cbs:
            names = {x.sres for x in g.calls if not x.sres.endswith("::deref")}
            detail = str(sorted(short(x) for x in names))
            rets = [st["rv"] for b_ in g.blocks for st in b_["stmts"] if st["k"] == "assign" and st["to"]["l"] == 0 and "p" not in st["to"]]
            neg = bool(rets) and all(rv_["k"] == "un" and rv_["op"] == "Not" and
                                     any(o.kind == "call" and o.extra.sres.endswith("GenericLevel::is_empty") for o in origins(g, rv_["op_"] if "op_" in rv_ else rv_.get("e", rv_.get("a", rv_.get("operand"))))) for rv_ in rets)
            okc = okc and names <= {"version::Version::level", "std::option::Option::expect", "version::GenericLevel::is_empty"} and \
                "version::GenericLevel::is_empty" in names
        ok = ok and okr and okc
    r.check(ok, "%s|intermediary levels 1..last are tested for emptiness, nothing weaker" % LEVELED_CHOOSE,
            "the test that guards the move into the last level no longer is `some level in 1..last is non-empty`", f.where(), detail)
    r.floor(10)
