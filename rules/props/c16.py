"""C16 — a failed flush or compaction changes nothing and can simply be retried.

Decided: C16.a–f of DESIGN.md §3 (error-path structure). Not decided: OS behaviour after a failed write."""
from rules.engine import (MustSet, must_pass, success_ordered, try_sites, error_blocks, success_cuts, origins, short,
                          result_fate, TRY_BRANCH, RESULT_ADAPTORS, witness_path, describe_path)
from rules import anchors as A

EXPLANATION = (
    "Static decision of the failure-atomicity clauses C16.a-f on MIR: (a) in-memory version history is extended only "
    "after persist_version succeeded and only by the three named mutators (who-may-write on the VecDeque<SuperVersion>); "
    "(b) sealed memtables are removed only inside the closure handed to upgrade_version and register_tables is "
    "success-ordered after flush_to_tables; (c) every error exit of a function that hides tables, reachable after the "
    "hide and not dominated by a direct show, has its `?` operand produced by an un-hide-on-error wrapper "
    "(Result::inspect_err whose closure calls show, or a function returning such a value); (d) error discipline: every "
    "call in the crate returning crate::Result / io::Result is propagated, returned, unwrapped or in the frozen "
    "exemption table; (e) version files are opened with truncate (File::create), table/blob ids come from "
    "SequenceNumberCounter::next before the file is created; (f) no error exit after a successful upgrade_version* "
    "except tabled content-preserving ones. The CFG contains every fault position, so the result holds for every "
    "fault sequence. Not decided: behaviour of the OS after a failed write, success of the retry.")
KINDS = ["P", "O", "W", "E"]

LEVEL_TEXT = ("Static analysis of every error exit (the MIR CFG contains each `?`, each Err return and each swallowed "
              "Result): memory-after-disk ordering, un-hide on every failing exit of a merge, nothing fallible after the "
              "commit point, no storage error dropped outside a frozen, reasoned exemption table. This quantifies over "
              "all fault positions at once, which the fault-free test suite cannot. The behaviour of the OS after a "
              "failed write and the success of a retry are not decided.")

# result swallowed deliberately: (function, callee) -> reason
SWALLOW_EXEMPT = {
    ("<tree::Tree as abstract_tree::AbstractTree>::register_tables", A.MAINTENANCE):
        "version-file GC failure must not fail a flush that is already published (logged)",
    ("tree::ingest::Ingestion::<'a>::finish", A.MAINTENANCE): "same: ingestion already published (logged)",
    ("blob_tree::ingest::BlobIngestion::<'a>::finish", A.MAINTENANCE): "same: ingestion already published (logged)",
    ("compaction::worker::drop_tables", A.MAINTENANCE): "same: the drop is already published (logged) — finding F6 repair",
    ("<table::inner::Inner as std::ops::Drop>::drop", A.REMOVE_FILE): "best-effort unlink in Drop (logged); retried at next open",
    ("<vlog::blob_file::Inner as std::ops::Drop>::drop", A.REMOVE_FILE): "best-effort unlink in Drop (logged); retried at next open",
    (A.BLOB_CONSUME_WRITER, A.REMOVE_FILE): "best-effort removal of an empty, never published blob file (logged)",
    ("<compaction::fifo::Strategy as compaction::CompactionStrategy>::choose", "table::Table::referenced_blob_bytes"):
        "choose() cannot return errors; an unreadable blob-link section counts as 0 bytes (only makes FIFO keep more)",
}

# error exits after the commit point that are tolerated: (function, failing callee) -> reason
POST_COMMIT_EXEMPT = {
    (A.MERGE_TABLES, A.MAINTENANCE): "merge is content-preserving: reads are unchanged whether or not Err is returned",
    (A.MOVE_TABLES, A.MAINTENANCE): "move is content-preserving: reads are unchanged whether or not Err is returned",
}


def run(prog, R, tier="quick", only_rule=None):
    # an error path must return: no lock is taken again while it is held (a self-deadlock never returns the error)
    from rules.props import c06 as _c06
    _c06.c06n(prog, R, _c06.LockFacts(prog, _c06.CLASSES), rid="C16.i")
    c16a(prog, R)
    c16b(prog, R)
    c16c(prog, R)
    c16d(prog, R)
    c16e(prog, R)
    c16f(prog, R)
    # shared clause: nothing is unlinked/marked before the version without it is published, so a failure before the
    # publication leaves the old state complete (DESIGN.md C16 "shares C05.c")
    from rules.props import c05
    c05.c05c(prog, R, rid="C16.g")


DEQUE_MUT = ("push_back", "pop_back", "pop_front", "push_front", "clear", "insert", "remove", "truncate", "drain",
             "retain", "retain_mut", "append", "extend", "swap", "swap_remove_back", "swap_remove_front", "split_off",
             "resize", "rotate_left", "rotate_right", "iter_mut", "back_mut", "front_mut", "get_mut", "make_contiguous",
             "as_mut_slices", "range_mut")


def c16a(prog, R):
    r = R.rule("C16.a", "in-memory version history follows the disk (persist => append; three mutators only)", "O,W")
    f = prog.need(A.UPGRADE_SEQNO)
    pers = f.calls_to(A.PERSIST_VERSION)
    app = f.calls_to(A.APPEND_VERSION)
    if not pers:
        r.anchor_missing("persist_version call in upgrade_version_with_seqno")
    if not app:
        r.anchor_missing("append_version call in upgrade_version_with_seqno")
    for a in app:
        good = False
        why = ""
        for p in pers:
            ok, why = success_ordered(f, p, a.bb)
            good = good or ok
        r.check(good, "%s|persist_version=>append_version" % f.path,
                "the new version becomes visible in memory without a successful persist_version: " + why, f.where(a.bb), why)
    # who mutates the deque of super versions
    allowed = {A.APPEND_VERSION, A.REPLACE_LATEST, A.MAINTENANCE}
    seen = set()
    for p, g in sorted(prog.fns.items()):
        for c in g.calls:
            if not c.sres or not c.sres.startswith("std::collections::VecDeque::"):
                continue
            if c.sres.split("::")[-1] not in DEQUE_MUT:
                continue
            if not c.arg_tys or "VecDeque<version::super_version::SuperVersion" not in c.arg_tys[0]:
                continue
            root = prog.fns.get(g.root, g).path
            seen.add(root)
            r.check(root in allowed, "%s|mutates version deque via %s" % (root, c.sres.split("::")[-1]),
                    "the version history deque is mutated outside append_version/replace_latest_version/maintenance",
                    g.where(c.bb))
    # only upgrade_version_with_seqno appends
    for c in prog.all_calls(A.APPEND_VERSION):
        r.check(c.fn.path == A.UPGRADE_SEQNO, "%s|calls append_version" % c.fn.path,
                "append_version is called outside upgrade_version_with_seqno (bypasses persist_version)", c.fn.where(c.bb))
    # upgrade_version delegates
    g = prog.need(A.UPGRADE)
    r.check(bool(g.calls_to(A.UPGRADE_SEQNO)) and must_pass(g, {c.bb for c in g.calls_to(A.UPGRADE_SEQNO)}),
            "%s|delegates to upgrade_version_with_seqno" % g.path, "upgrade_version no longer goes through "
            "upgrade_version_with_seqno on every success path", g.where())
    r.floor(7)


def c16b(prog, R):
    r = R.rule("C16.b", "sealed memtables leave only together with their tables", "O,W")
    f = prog.need(A.ABSTRACT_FLUSH)
    ft = f.calls_to("abstract_tree::AbstractTree::flush_to_tables")
    rt = f.calls_to("abstract_tree::AbstractTree::register_tables")
    if not ft or not rt:
        r.anchor_missing("flush_to_tables / register_tables in AbstractTree::flush")
    for a in ft:
        for b in rt:
            ok, why = success_ordered(f, a, b.bb)
            r.check(ok, "%s|flush_to_tables=>register_tables" % f.path,
                    "tables are registered (sealed memtables released) without a successful flush_to_tables: " + why,
                    f.where(b.bb), why)
    rm = prog.all_calls("tree::sealed::SealedMemtables::remove")
    if not rm:
        r.anchor_missing("SealedMemtables::remove call sites")
    for c in rm:
        g = c.fn
        ok = False
        if g.kind == "closure":
            parent = prog.fns.get(g.parent)
            if parent is not None:
                for pc in parent.calls_to(A.UPGRADE, A.UPGRADE_SEQNO):
                    if g.path in prog.callbacks(pc):
                        ok = True
        r.check(ok, "%s|SealedMemtables::remove inside an upgrade closure" % g.path,
                "a sealed memtable is removed outside the transition closure of upgrade_version (its removal would survive "
                "a failed persist)", g.where(c.bb))
    r.floor(2)


def show_set(prog):
    return MustSet(prog, [A.SHOW], "show*")


def closure_unhides(prog, closure_path):
    g = prog.fns.get(closure_path)
    if g is None:
        return False
    return must_pass(g, show_set(prog), success_only=False)


def call_unhides_on_err(prog, f, c, depth=0):
    """The Result produced by call c has passed an inspect_err whose closure un-hides."""
    if c.is_to("std::result::Result::inspect_err"):
        return any(closure_unhides(prog, cb) for cb in prog.callbacks(c))
    if depth > 2:
        return False
    for t in prog.call_targets(c):
        g = prog.fns[t]
        # what does g return?
        for rb in g.return_blocks():
            pass
        outs = [o for o in origins(g, {"o": "move", "l": 0})]
        if outs and all(o.kind == "call" and call_unhides_on_err(prog, g, o.extra, depth + 1) for o in outs):
            return True
    return False


def c16c(prog, R):
    r = R.rule("C16.c", "every error exit after hide un-hides the tables", "P,M")
    hides = prog.all_calls(A.HIDE)
    if not hides:
        r.anchor_missing("HiddenSet::hide call sites")
    shows = show_set(prog)
    n = 0
    for h in hides:
        f = h.fn
        after = f.reach_after(h.bb)
        direct_shows = [c for c in f.calls if shows.call_in(c) and c.bb in after]
        # (1) `?` sites
        for s in try_sites(f):
            if s["call_bb"] not in after:
                continue
            opnames = []
            guarded = False
            dom = [c for c in direct_shows if f.dominates(c.bb, s["call_bb"])]
            srcs = origins(f, s["operand"])
            for o in srcs:
                if o.kind == "call":
                    opnames.append(short(o.what))
            key = "%s|error exit of `%s?` after hide" % (f.path, "/".join(sorted(set(opnames))) or "?")
            if dom:
                r.ok(key, "dominated by a direct show (%s)" % short(dom[0].sres))
                n += 1
                continue
            if srcs and all(o.kind == "call" and call_unhides_on_err(prog, f, o.extra) for o in srcs):
                r.ok(key, "operand comes from an un-hide-on-error wrapper")
                n += 1
                continue
            r.bad(key, "a fallible step after hide() can fail without un-hiding the tables (they would stay hidden "
                       "from every later compaction)", f.where(s["call_bb"]))
        # (2) explicit Err returns
        for eb in error_blocks(f):
            t = f.blocks[eb]["term"]
            if t["k"] == "call" and t["callee"].get("path", "").endswith("from_residual"):
                continue
            if eb in after:
                dom = [c for c in direct_shows if f.dominates(c.bb, eb)]
                r.check(bool(dom), "%s|explicit Err return bb after hide" % f.path,
                        "an explicit `return Err` after hide() is not preceded by show()", f.where(eb))
        # (3) every success path after hide reaches show
        r.check(must_pass(f, shows, from_bbs=[h.bb]), "%s|hide=>show on every success path" % f.path,
                "a success path after hide() returns without show()", f.where(h.bb))
    r.floor(4)


def c16d(prog, R):
    r = R.rule("C16.d", "storage-layer errors are not dropped (crate-wide census of Result fates)", "E")
    n_calls = 0
    seen_exempt = set()
    for p, f in sorted(prog.fns.items()):
        if f.derived:
            continue
        for c in f.calls:
            if not c.dest or "p" in c.dest:
                continue
            ty = f.local_ty(c.dest["l"])
            if not ty.startswith("std::result::Result<"):
                continue
            if not ("error::Error" in ty or "io::Error" in ty):
                continue
            if c.path == TRY_BRANCH or c.is_to(*RESULT_ADAPTORS):
                continue
            n_calls += 1
            fates = result_fate(f, c)
            if fates & {"propagated", "returned", "panics", "escapes"}:
                continue
            root = prog.fns.get(f.root, f).path
            callee = c.sres
            ek = (root, callee)
            if ek in SWALLOW_EXEMPT:
                seen_exempt.add(ek)
                r.ok("%s|swallows %s|exempt" % (root, short(callee)), SWALLOW_EXEMPT[ek], nontrivial=True)
            else:
                r.bad("%s|swallows %s" % (root, short(callee)),
                      "the error of a fallible storage call is dropped (%s) and the operation carries on as if it had "
                      "succeeded" % ", ".join(sorted(fates)), f.where(c.bb))
    # higher-order swallowing: Result::ok / unwrap_or* handed to an adaptor, or flatten() over an iterator of Results
    n_cb = 0
    for p, f in sorted(prog.fns.items()):
        if f.derived:
            continue
        for c in f.calls:
            for cb in prog.callbacks(c):
                n_cb += 1
                scb = cb
                if "std::result::Result" in scb and scb.split("::")[-1] in ("ok", "err", "unwrap_or_default", "unwrap_or", "is_ok"):
                    r.bad("%s|passes %s to %s" % (prog.fns.get(f.root, f).path, short(scb), short(c.sres)),
                          "errors are filtered out of a stream of results (%s as a callback)" % short(scb), f.where(c.bb))
            if c.sres in ("std::iter::Iterator::flatten", "std::iter::Iterator::flat_map") and c.arg_tys and \
                    "Result<" in c.arg_tys[0] and ("error::Error" in c.arg_tys[0] or "io::Error" in c.arg_tys[0]):
                # flatten over Item = Result<..> silently skips the Err items
                if "Item = std::result::Result" in c.arg_tys[0] or c.arg_tys[0].count("Result<") and "Option<" not in c.arg_tys[0]:
                    r.bad("%s|flattens an iterator of Results" % prog.fns.get(f.root, f).path,
                          "Iterator::flatten over Result items drops every error", f.where(c.bb))
    r.ok("census|%d callbacks inspected" % (n_cb // 50 * 50), "no Result::ok / unwrap_or* passed as a callback", nontrivial=False)
    r.ok("census|%d fallible calls classified" % (n_calls // 50 * 50), "%d calls returning crate::Result/io::Result" % n_calls,
         nontrivial=False)
    if n_calls < 900:
        r.anchor_missing("fallible-call census shrank to %d (<900)" % n_calls)
    r.floor(8)


def c16e(prog, R, rid="C16.e"):
    r = R.rule(rid, "a later attempt overwrites leftovers; ids of failed attempts are never reused", "W,D")
    f = prog.need(A.PERSIST_VERSION)
    fam = prog.family(f)
    creates = [c for g in fam for c in g.calls_to(A.FILE_CREATE)]
    creates_new = [c for g in fam for c in g.calls_to(A.FILE_CREATE_NEW)]
    r.check(bool(creates) and not creates_new, "%s|opens v<N> with File::create (truncate)" % f.path,
            "the version file is opened with create_new (or not with File::create): a leftover v<N> of a failed attempt "
            "would make every retry fail", f.where())
    for mw, wnew in (("table::multi_writer::MultiWriter", "table::writer::Writer::new"),
                     ("vlog::blob_file::multi_writer::MultiWriter", "vlog::blob_file::writer::Writer::new")):
        for meth in ("new", "rotate"):
            g = prog.fns.get("%s::%s" % (mw, meth))
            if g is None:
                r.anchor_missing("%s::%s" % (mw, meth))
                continue
            wc = g.calls_to(wnew)
            if not wc:
                r.anchor_missing("%s in %s" % (wnew, g.path))
                continue
            for c in wc:
                os_ = origins(g, c.args[1])
                ok = bool(os_) and all(o.kind == "call" and o.what.endswith("SequenceNumberCounter::next") for o in os_)
                r.check(ok, "%s|writer id comes from SequenceNumberCounter::next" % g.path,
                        "a writer is created with an id that does not come fresh from the id counter (ids of failed "
                        "attempts could be reused)", g.where(c.bb), "origins: %s" % os_)
    r.floor(5)


def c16f(prog, R):
    r = R.rule("C16.f", "nothing fallible after the commit point (an operation that published must not return Err)", "O,N")
    up = MustSet(prog, [A.UPGRADE, A.UPGRADE_SEQNO], "upgrade*")
    n = 0
    for p, f in sorted(prog.fns.items()):
        if p in (A.UPGRADE, A.UPGRADE_SEQNO):
            continue
        ups = [c for c in f.calls if up.call_in(c)]
        if not ups or not f.returns_result():
            continue
        for u in ups:
            # blocks reachable after u succeeded
            from rules.engine import result_test_of
            rt = result_test_of(f, u)
            if rt is None:
                # result returned directly (tail position): nothing can follow
                r.ok("%s|%s in tail position" % (f.path, short(u.sres)), "its Result is the function's result")
                n += 1
                continue
            ok_blocks, err_edges = rt
            after = f.reach(ok_blocks)
            bad = []
            for s in try_sites(f):
                if s["call_bb"] in after:
                    srcs = origins(f, s["operand"])
                    names = sorted({o.extra.sres for o in srcs if o.kind == "call"})
                    bad.append(("?", names, s["call_bb"]))
            for eb in error_blocks(f):
                t = f.blocks[eb]["term"]
                if t["k"] == "call" and t["callee"].get("path", "").endswith("from_residual"):
                    continue
                if eb in after:
                    # which fallible call feeds this Err return?
                    names = set()
                    for st in f.blocks[eb]["stmts"]:
                        if st["k"] == "assign" and st["rv"]["k"] == "agg" and st["rv"].get("variant") == "Err":
                            for o in origins(f, st["rv"]["ops"][0]):
                                if o.kind == "call":
                                    names.add(o.extra.sres)
                    bad.append(("return Err", sorted(names), eb))
            if not bad:
                r.ok("%s|no error exit after %s" % (f.path, short(u.sres)), "post-commit steps are infallible or swallowed")
                n += 1
                continue
            for (kind, names, bb) in bad:
                # resolve through adaptors (inspect_err(...)?): find the underlying fallible call
                under = set(names)
                for nm in list(names):
                    if nm in ("std::result::Result::inspect_err", "std::result::Result::map_err"):
                        c = f.call_at([o.extra.bb for o in origins(f, [s for s in try_sites(f) if s["call_bb"] == bb][0]["operand"])
                                       if o.kind == "call"][0])
                        for o in origins(f, c.args[0]):
                            if o.kind == "call":
                                under.add(o.extra.sres)
                exempt = [nm for nm in under if (f.path, nm) in POST_COMMIT_EXEMPT]
                key = "%s|error exit (%s %s) after %s" % (f.path, kind, "/".join(short(x) for x in sorted(under)) or "", short(u.sres))
                if exempt:
                    r.ok(key + "|exempt", POST_COMMIT_EXEMPT[(f.path, exempt[0])])
                else:
                    r.bad(key, "the operation can return Err after its version change was already published "
                               "(a failed call must change nothing)", f.where(bb))
    r.floor(9)
