"""C01 — point reads return the most recent write, whatever maintenance has happened.

Decided: C01.a–g of DESIGN.md §3 (+ shared C07.a). Not decided: equality with the map model over histories."""
from rules.engine import (origins, origin_callees, deep_origins, short, hir_walk, hir_expr_str, hir_sites, must_pass)
from rules import anchors as A
from rules.stream_rules import StreamModel

EXPLANATION = (
    "Static decision of the point-read clauses: (a) lookup precedence in get_internal_entry_from_version: active memtable, "
    "then sealed memtables newest first (iter().rev()), then tables level by level / run by run (no reversal), first hit "
    "returns; (b) every found entry passes ignore_tombstone_value before it is returned; (c) tombstones are evicted only "
    "into the last level: evict_tombstones' argument is payload.dest_level == level_count - 1 (never a constant), flush never "
    "evicts, and every discard site of CompactionStream::next is guarded by the filter's Drop verdict, by evict_tombstones "
    "together with a tombstone test, or by the weak-tombstone annihilation condition; (d) a flushed run is placed on top of "
    "L0 before the previous runs and only then optimize_runs runs; (e) the table writer registers and the read path probes "
    "the same hash function (standard_bloom::Builder::get_hash) on the user key; (f) Run::get_for_key is "
    "partition_point(max < key) then filter(min <= key); (g) optimize_runs places a table behind the last run that overlaps "
    "it (rposition, idx + 1, first_mut) and Run::push re-sorts by min; plus run construction (C07.a). Not decided: equality "
    "of read results with a map model over histories; bloom filter mathematics.")
KINDS = ["H", "D", "O"]
LEVEL_TEXT = ("Static precedence / guard / def-use / operator-table analysis of the point-read path and of what a compaction "
              "may discard. These are necessary conditions of `the newest write wins` that hold for all histories by "
              "construction; equality of results with a model is not decided.")

GFV = "tree::Tree::get_internal_entry_from_version"
GFT = "tree::Tree::get_internal_entry_from_tables"
GFS = "tree::Tree::get_internal_entry_from_sealed_memtables"
GET_HASH = "table::filter::standard_bloom::builder::Builder::get_hash"


def run(prog, R, tier="quick", only_rule=None):
    c01a(prog, R)
    c01b(prog, R)
    c01c(prog, R)
    c01d(prog, R)
    c01e(prog, R)
    c01f(prog, R)
    c01g(prog, R)
    from rules.props import c07, c11
    c07.c07a(prog, R, rid="C01.h")
    # which tables a leveled merge pulls in (hull of L0, containment) decides whether an older value stays on top
    c07.c07f(prog, R, rid="C01.i")
    # a stored hash index must never answer `absent` for a key that is in the block
    c11.c11c(prog, R, rid="C01.j")
    # a trivial move must not put newer data underneath older data of an intermediary level
    c07.c07h(prog, R, rid="C01.k")
    # a table's recorded key range decides whether a lookup consults it at all
    c07.c07c(prog, R, rid="C01.m")
    # rotation + flush never drop an unflushed memtable: memtable ids are unique (also after reopen)
    from rules.props import c06
    c06.c06j(prog, R, rid="C01.n")
    c06.c06l(prog, R, rid="C01.o")
    c06.c06p(prog, R, rid="C01.s")
    from rules.props import c02 as _c02
    _c02.c02f(prog, R, rid="C01.p")
    _c02.c02a(prog, R, rid="C01.q")
    # a flush releases exactly the memtables it wrote: a memtable rotated in meanwhile keeps its (unflushed) writes visible
    c06.c06d(prog, R, c06.LockFacts(prog, c06.CLASSES), rid="C01.r")


def c01a(prog, R):
    r = R.rule("C01.a", "lookup precedence: active memtable, sealed newest-first, then tables top-down; first hit wins", "O,N,T")
    f = prog.need(GFV)
    mem = [c for c in f.calls if c.sres == "memtable::Memtable::get"]
    sealed = f.calls_to(GFS)
    tables = f.calls_to(GFT)
    if not (mem and sealed and tables):
        r.anchor_missing("three probes in get_internal_entry_from_version")
        return
    r.check(f.dominates(mem[0].bb, sealed[0].bb) and f.dominates(sealed[0].bb, tables[0].bb), "%s|active => sealed => tables" % GFV,
            "the lookup order of the three sources changed: an older source can answer before a newer one", f.where())
    # the active probe reads super_version.active_memtable
    src = origins(f, mem[0].args[0])
    r.check(any("active_memtable" in o.path for o in src), "%s|first probe is the active memtable" % GFV, "first probe is not the active memtable", f.where(), str(src))
    h = prog.hir.get(GFV)
    rets = hir_sites(h["body"], lambda n: n.get("k") == "ret")
    ok = len(rets) == 2 and all(any(g.startswith("let std::option::Option::Some(entry)") for g in s.guard_texts()) for s in rets)
    r.check(ok, "%s|a hit in a newer source returns at once" % GFV, "a hit no longer short-circuits the later sources", f.where())
    # sealed: newest first
    hs = prog.hir.get(GFS)
    fors = [n for n in hir_walk(hs["body"]) if n.get("k") == "for"]
    ok = len(fors) == 1 and hir_expr_str(fors[0]["iter"]) == "super_version.sealed_memtables.iter().rev()"
    r.check(ok, "%s|iterates sealed memtables newest first (iter().rev())" % GFS, "sealed memtables are probed oldest first: an overwritten value resurfaces",
            "", str([hir_expr_str(n["iter"]) for n in fors]))
    sm = prog.hir.get("tree::sealed::SealedMemtables::add")
    pushes = [hir_expr_str(n) for n in hir_walk(sm["body"]) if n.get("k") == "mcall" and n.get("m") in ("push", "insert", "push_front")] if sm else []
    r.check(pushes == ["copy.0.push(memtable)"], "SealedMemtables::add|appends (newest last)", "sealed memtables are no longer appended in order", "", str(pushes))
    # tables: levels in order, runs in order, no rev
    ht = prog.hir.get(GFT)
    fors = [n for n in hir_walk(ht["body"]) if n.get("k") == "for"]
    it = hir_expr_str(fors[0]["iter"], 300) if fors else ""
    ok = "version.iter_levels()" in it and ".flat_map(" in it and ".filter_map(" in it and "get_for_key(key)" in it and ".rev()" not in it
    r.check(ok, "%s|levels top-down, runs in order, one candidate table per run" % GFT, "table lookup order changed: %s" % it, "", it)
    rets = hir_sites(ht["body"], lambda n: n.get("k") == "ret")
    ok = bool(rets) and all(any("table.get(key, seqno, key_hash)" in g for g in s.guard_texts()) for s in rets)
    r.check(ok, "%s|first table hit returns" % GFT, "the first table hit no longer ends the lookup", "")
    lv = prog.hir.get("version::Version::iter_levels")
    s = hir_expr_str(lv["body"]) if lv else ""
    r.check(s == "self.levels.iter()", "version::Version::iter_levels|L0 first", "iter_levels order changed: %s" % s, "", s)
    r.floor(8)


def c01b(prog, R):
    r = R.rule("C01.b", "a found tombstone reads as absent", "P")
    IG = "tree::ignore_tombstone_value"
    for name, n_want in ((GFV, 2), (GFT, 1)):
        h = prog.hir.get(name)
        rets = hir_sites(h["body"], lambda n: n.get("k") == "ret" and n.get("e") is not None)
        hits = [s for s in rets if "Some(" in " ".join(s.guard_texts())]
        ok = len(hits) >= n_want and all(hir_expr_str(s.node["e"]).startswith("std::result::Result::Ok(%s(" % IG) for s in hits)
        r.check(ok, "%s|every found entry passes ignore_tombstone_value" % name,
                "a found entry is returned without the tombstone test: a deleted key reads as present (with an empty value)", "",
                str([hir_expr_str(s.node["e"]) for s in hits]))
    r.floor(2)


def c01c(prog, R, rid="C01.c"):
    r = R.rule(rid, "tombstones are evicted only into the last level; every discard of the stream is guarded", "W,D,K")
    calls = [c for p, f in prog.fns.items() for c in f.calls if c.sres and c.sres.endswith("CompactionStream::<'a, I, F>::evict_tombstones")
             or (c.sres and c.sres.endswith("::evict_tombstones"))]
    callers = sorted({prog.fns.get(c.fn.root, c.fn).path for c in calls})
    r.check(callers == [A.MERGE_TABLES], "evict_tombstones|called only from merge_tables", "evict_tombstones callers: %s" % callers, "", str(callers))
    mt = prog.need(A.MERGE_TABLES)
    for c in [c for c in calls if c.fn.path == A.MERGE_TABLES]:
        src = origins(mt, c.args[1])
        ok = bool(src) and all(o.kind == "bin" and o.what == "Eq" for o in src)
        detail = str(src)
        if ok:
            rv = src[0].extra
            a = origins(mt, rv["a"])
            b = origins(mt, rv["b"])
            sa = " ".join(str(o) for o in a + b)
            ok = "dest_level" in sa and ("bin:Sub" in sa or "level_count" in sa)
            detail = sa
        r.check(ok, "%s|evict_tombstones(payload.dest_level == level_count - 1)" % mt.path,
                "tombstones are evicted although the merge does not write the last level (older versions beneath resurface)", mt.where(c.bb), detail[:200])
    h = prog.hir.get(A.MERGE_TABLES)
    lets = {n["pat"]["n"]: hir_expr_str(n["init"], 200) for n in hir_walk(h["body"]) if n.get("k") == "let" and n["pat"].get("k") == "bind" and "init" in n}
    r.check(lets.get("last_level") == "(opts.config.level_count - 1)" and lets.get("is_last_level") == "(payload.dest_level == last_level)",
            "%s|is_last_level := dest_level == level_count - 1" % mt.path, "is_last_level is computed differently: %s / %s" % (lets.get("last_level"), lets.get("is_last_level")), "")
    fl = prog.need(A.ABSTRACT_FLUSH)
    r.check(not any(c.sres and c.sres.endswith("::evict_tombstones") for g in prog.family(fl) for c in g.calls),
            "%s|flush never evicts tombstones" % fl.path, "flush evicts tombstones (flush output is never the last level)", fl.where())
    # default of the stream: no eviction
    nw = prog.hir.get("compaction::stream::CompactionStream::<'_, I, compaction::stream::NoFilter>::new") or \
        next((v for k, v in prog.hir.items() if k.startswith("compaction::stream::CompactionStream") and k.endswith("::new")), None)
    ok = False
    if nw:
        for n in hir_walk(nw["body"]):
            if n.get("k") == "struct":
                fs = {x["n"]: hir_expr_str(x["e"]) for x in n["f"]}
                ok = fs.get("evict_tombstones") == "false" and fs.get("zero_seqnos") == "false"
    r.check(ok, "CompactionStream::new|evict_tombstones = false, zero_seqnos = false by default", "the stream's defaults changed", "")
    sm = StreamModel(prog)
    ds = sm.discards()
    for s in ds:
        cls = sm.classify_discard(s)
        g = sm.guards(s)
        key = "%s|discard[%s] %s" % (sm.path, cls, " & ".join(g)[-140:])
        ok = cls != "unguarded"
        if cls == "tombstone-eviction":
            # eviction before the next key / at the end of the stream, or (same key) below the watermark after draining
            if sm.SAME_KEY in g:
                ok = sm.BELOW_WATERMARK in g and sm.before_has_call(s, "drain_key")
        if cls == "weak-annihilation":
            ok = sm.SAME_KEY in g and sm.BELOW_WATERMARK in g and not sm.before_has_call(s, "drain_key")
        r.check(ok, key, "an entry can be discarded by the compaction stream without one of the three legal reasons (filter "
                         "Drop / tombstone eviction into the last level / weak-tombstone annihilation): older versions beneath it resurface", "")
    if len(ds) < 5:
        r.anchor_missing("discard sites in CompactionStream::next (found %d, 5 confirmed)" % len(ds))
    # what is emitted is the head item
    em = sm.emissions()
    r.check(len(em) == 1, "%s|one emission site returns head" % sm.path, "emission sites: %d" % len(em), "")
    r.floor(10)


def lambda_never(*a):
    return False


def c01d(prog, R):
    r = R.rule("C01.d", "a flush lands on top of L0", "O")
    name = "version::Version::with_new_l0_run"
    f = prog.need(name)
    h = prog.hir.get(name)
    push = hir_sites(h["body"], lambda n: n.get("k") == "mcall" and n.get("m") == "push" and hir_expr_str(n["r"]) == "runs")
    ext = hir_sites(h["body"], lambda n: n.get("k") == "mcall" and n.get("m") == "extend" and hir_expr_str(n["r"]) == "runs")
    ok = len(push) == 1 and len(ext) == 1 and hir_expr_str(ext[0].node["a"][0]) == "prev_runs" and \
        any(b is push[0].node or any(m is push[0].node for m in hir_walk(b)) for b in ext[0].before)
    r.check(ok, "%s|new run pushed before prev_runs are appended" % name, "the flushed run is not placed in front of the existing L0 runs", f.where())
    lets = {n["pat"]["n"]: hir_expr_str(n["init"], 200) for n in hir_walk(h["body"]) if n.get("k") == "let" and n["pat"].get("k") == "bind" and "init" in n}
    r.check(lets.get("runs", "").startswith("std::vec::Vec::with_capacity") or "optimize_runs(runs)" in str(lets.values()), "%s|optimize_runs after placement" % name,
            "optimize_runs is not applied to the assembled run list", f.where())
    opt = [c for c in f.calls if c.sres == "version::optimize::optimize_runs"]
    pu = [c for c in f.calls if c.sres == "std::vec::Vec::push" and c.arg_tys and "Run<" in c.arg_tys[0]]
    ex = [c for c in f.calls if c.sres and c.sres.endswith("::extend") and c.arg_tys and "Run<" in c.arg_tys[0]]
    ok = bool(opt) and bool(pu) and bool(ex) and all(o.bb in f.reach_after(e.bb) for o in opt for e in ex) and all(e.bb in f.reach_after(p.bb) for e in ex for p in pu)
    r.check(ok, "%s|MIR order push(new) -> extend(prev) -> optimize_runs" % name, "order of run assembly changed", f.where())
    wm = prog.hir.get("version::Version::with_merge")
    ins = [n for n in hir_walk(wm["body"]) if n.get("k") == "mcall" and n.get("m") == "insert" and hir_expr_str(n["r"]) == "runs"]
    ok = bool(ins) and all(hir_expr_str(n["a"][0]) == "0" for n in ins)
    r.check(ok, "version::Version::with_merge|merge output inserted at the front of the destination level", "merge output not inserted at index 0", "")
    r.floor(4)


def c01e(prog, R, rid="C01.e"):
    r = R.rule(rid, "writer and reader agree on the filter hash", "W,D")
    regs = prog.impl_of_trait_item.get("table::writer::filter::FilterWriter::register_key", [])
    if len(regs) < 2:
        r.anchor_missing("FilterWriter::register_key impls (found %d)" % len(regs))
    for p in regs:
        f = prog.fns[p]
        gh = f.calls_to(GET_HASH)
        ok = bool(gh) and all(any(o.kind == "param" and o.what == 2 for o in origins(f, c.args[0])) for c in gh)
        r.check(ok, "%s|hash = Builder::get_hash(key)" % p, "a filter writer hashes with another function / another input than the user key", f.where())
    f = prog.need(GFT)
    gh = f.calls_to(GET_HASH)
    tg = f.calls_to("table::Table::get")
    ok = bool(gh) and bool(tg)
    if ok:
        ksrc = {(o.kind, o.what) for o in origins(f, gh[0].args[0])}
        tsrc = {(o.kind, o.what) for o in origins(f, tg[0].args[1])}
        hsrc = origins(f, tg[0].args[3])
        ok = bool(ksrc & tsrc) and any(o.kind == "call" and o.extra.bb == gh[0].bb for o in hsrc)
    r.check(ok, "%s|probe hash = get_hash(key) of the looked-up key" % GFT, "the probed hash is not the hash of the key being read", f.where())
    # the only hash function used for filters
    others = [c for c in prog.all_calls("table::filter::standard_bloom::StandardBloomFilterReader::contains_hash",
                                        "table::filter::block::FilterBlock::maybe_contains_hash")]
    r.ok("census|%d probe sites use the shared hash" % len(others), "", nontrivial=False)
    # Writer::write registers once per distinct user key while the policy is active
    h = prog.hir.get("table::writer::Writer::write")
    sites = hir_sites(h["body"], lambda n: n.get("k") == "mcall" and n.get("m") == "register_key")
    want = {"(std::option::Option::Some(&user_key) != self.current_key.as_ref())", "self.bloom_policy.is_active()"}
    # exactly these two conditions: every distinct key goes into the filter whatever its value type (a tombstone - weak or
    # not - that the filter does not know is skipped by point reads, and the value beneath it shows)
    ok = bool(sites) and all(set(s.guard_texts()) == want for s in sites)
    r.check(ok, "table::writer::Writer::write|register_key(&user_key) once per distinct key when the policy is active",
            "keys are registered under another condition: written keys could be missing from the filter", "", str([s.guard_texts() for s in sites]))
    r.floor(4)


def c01f(prog, R):
    r = R.rule("C01.f", "Run::get_for_key: first table whose max >= key, and only if min <= key", "B")
    key = next((k for k in prog.hir if k.startswith("version::run::Run") and k.endswith("::get_for_key")), None)
    if not key:
        r.anchor_missing("Run::get_for_key")
        return
    h = prog.hir[key]
    lets = {n["pat"]["n"]: hir_expr_str(n["init"], 200) for n in hir_walk(h["body"]) if n.get("k") == "let" and n["pat"].get("k") == "bind" and "init" in n}
    r.check(lets.get("idx") == "self.partition_point(|..| (x.key_range().max() < &key))", "Run::get_for_key|partition_point(max < key)",
            "partition predicate changed: %s" % lets.get("idx"), "", str(lets.get("idx")))
    tail = hir_expr_str(h["body"]["b"].get("e"), 200)
    r.check(tail == "self.0.get(idx).filter(|..| (x.key_range().min() <= &key))", "Run::get_for_key|filter(min <= key)", "filter changed: %s" % tail, "", tail)
    r.floor(2)


def c01g(prog, R):
    r = R.rule("C01.g", "optimize_runs keeps a table behind every run that overlaps it", "B")
    key = next((k for k in prog.hir if k.startswith("version::optimize::optimize_runs")), None)
    if not key:
        r.anchor_missing("optimize_runs")
        return
    h = prog.hir[key]
    lets = {n["pat"]["n"]: n["init"] for n in hir_walk(h["body"]) if n.get("k") == "let" and n["pat"].get("k") == "bind" and "init" in n}
    lo = hir_expr_str(lets.get("last_overlap"), 300) if lets.get("last_overlap") else ""
    r.check(lo.startswith("new_runs.iter().rposition(") and "overlaps_with_key_range" in lo, "optimize_runs|last_overlap = rposition(run overlaps table)",
            "the target run is not chosen by the LAST overlapping run: %s" % lo, "", lo[:160])
    tgt = lets.get("target")
    arms = {}
    if tgt and tgt.get("k") == "match":
        from rules.engine import pat_str
        arms = {pat_str(a["pat"]): hir_expr_str(a["b"]) for a in tgt["arms"]}
    r.check(arms.get("std::option::Option::Some(idx)") == "new_runs.get_mut((idx + 1))" and arms.get("std::option::Option::None") == "new_runs.first_mut()",
            "optimize_runs|target = run after the last overlap, else the first run", "target selection changed: %s" % arms, "", str(arms))
    pk = next((k for k in prog.hir if k.startswith("version::run::Run") and k.endswith("::push")), None)
    sorts = [hir_expr_str(n, 300) for n in hir_walk(prog.hir[pk]["body"]) if n.get("k") == "mcall" and n.get("m", "").startswith("sort")] if pk else []
    r.check(len(sorts) == 1 and "a.key_range().min().cmp(b.key_range().min())" in sorts[0], "Run::push|re-sorts by min ascending",
            "Run::push no longer keeps the run sorted by min", "", str(sorts)[:200])
    r.floor(3)
