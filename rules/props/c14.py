"""C14 — bulk ingestion becomes visible atomically and overrides older data.

Decided: C14.a–d of DESIGN.md §3. Not decided: visibility over histories, races with concurrent writers."""
from rules.engine import (LockFacts, origins, deep_origins, origin_callees, short, hir_walk, hir_expr_str, hir_sites,
                          success_ordered, hir_tail_name)
from rules import anchors as A
from rules.props import c06

EXPLANATION = (
    "Static decision of the ingestion clauses: (a) in Ingestion::finish and BlobIngestion::finish the value of "
    "config.seqno.next() is the global_seqno argument of every Table::recover and the seqno argument of "
    "upgrade_version_with_seqno (def-use across the closure capture), and that call - not upgrade_version - publishes; "
    "(b) step order flush-lock => rotate => flush => writer finish => compaction-state lock => version-history write lock => "
    "seqno.next() => recover => upgrade, with the flush lock held throughout, the new tables entering through "
    "with_new_l0_run, and both implementations agreeing on that step sequence; (c) every table read path (Iter::next / "
    "next_back incl. the buffered-block flush exits, Scanner::next, Table::point_read) adds the table's global seqno to the "
    "entry before it is returned, Table::get translates the snapshot by the same amount, get_highest_seqno adds it; "
    "(d) ingested files are durable before publication (C05.a/b instances for the ingestion writers). Not decided: "
    "visibility over concrete histories; schedule-dependent races with concurrent writers.")
KINDS = ["D", "L", "O", "H"]
LEVEL_TEXT = ("Static def-use / ordering / lock-span analysis of the two ingestion finishers and a structural census of every "
              "exit of the table read paths (all eight must shift by the global sequence number). Holds for all histories "
              "for these clauses; atomic visibility as observed by concurrent readers is not decided.")

NEXT_SEQ = "seqno::SequenceNumberCounter::next"


def run(prog, R, tier="quick", only_rule=None):
    c14a(prog, R)
    c14b(prog, R)
    c14c(prog, R)
    c14d(prog, R)
    # invisible to every snapshot taken earlier: readers pin one SuperVersion (also the blob side of a scan)
    from rules.props import c02
    c02.c02d(prog, R, rid="C14.e")
    # ingested blobs carry seqno 0 in their frames: relocation must not rely on the frame seqno order (finding F12)
    from rules.props import c08
    c08.c08j(prog, R, rid="C14.f")
    # the ingested entries survive reopen with their seqno offset, in whatever level a trivial move has put the table
    from rules.props import c04
    c04.c04h(prog, R, rid="C14.g")
    c14h(prog, R)
    c02.c02a(prog, R, rid="C14.i")


def finishers(prog):
    return [prog.need(A.INGEST_FINISH), prog.need(A.BLOB_INGEST_FINISH)]


def c14a(prog, R):
    r = R.rule("C14.a", "ingested tables and the version that registers them carry one sequence number", "D")
    for f in finishers(prog):
        ups = f.calls_to(A.UPGRADE_SEQNO)
        wrong = f.calls_to(A.UPGRADE)
        r.check(bool(ups) and not wrong, "%s|publishes through upgrade_version_with_seqno" % f.path,
                "ingestion publishes through upgrade_version (a fresh seqno) instead of the seqno given to its tables: "
                "snapshots taken in between see the tables but not the version (or vice versa)", f.where())
        nexts = [c for c in f.calls_to(NEXT_SEQ)]
        for u in ups:
            # seqno argument: by type u64 (arg index 3: self, path, closure, seqno, visible)
            idx = [i for i, t in enumerate(u.arg_tys) if t == "u64"]
            src = origins(f, u.args[idx[0]]) if idx else []
            ok = any(o.kind == "call" and o.extra.sres == NEXT_SEQ for o in src)
            seq_bbs = {o.extra.bb for o in src if o.kind == "call" and o.extra.sres == NEXT_SEQ}
            r.check(ok, "%s|upgrade seqno = config.seqno.next()" % f.path,
                    "the version is registered with a sequence number that is not the freshly allocated one", f.where(u.bb), str(src))
            # every Table::recover in the family gets the same value
            recs = [(g, c) for g in prog.family(f) for c in g.calls_to(A.TABLE_RECOVER)]
            if not recs:
                r.anchor_missing("Table::recover in " + f.path)
            for (g, c) in recs:
                gidx = [i for i, t in enumerate(c.arg_tys) if t == "u64"]
                # Table::recover(path, checksum, global_seqno: u64, tree_id: u64, ...) -> first u64 is the global seqno
                do = deep_origins(prog, g, c.args[gidx[0]]) if gidx else []
                same = any(gg.path == f.path and o.kind == "call" and o.extra.sres == NEXT_SEQ and o.extra.bb in seq_bbs
                           for (gg, o) in do)
                r.check(same, "%s|Table::recover(global_seqno) = the upgrade's seqno" % f.path,
                        "an ingested table is recovered with a different sequence number than the version that registers it",
                        g.where(c.bb), str([(gg.path[-20:], o) for gg, o in do]))
            # the seqno is allocated under both locks (nothing can slip in between allocation and publication)
            L = LockFacts(prog, c06.CLASSES)
            for nx in nexts:
                if nx.bb in seq_bbs:
                    held = {x for (x, _m) in L.held_at(f, nx.bb, must=True)}
                    r.check({"FL", "CS", "VH"} <= held, "%s|seqno allocated under flush + compaction-state + version-history locks" % f.path,
                            "the ingestion seqno is allocated before all three locks are held: a concurrent write/flush can "
                            "take a higher seqno and still be ordered below the ingestion", f.where(nx.bb), str(sorted(held)))
    r.floor(8)


STEPS = [
    ("flush-lock", lambda c: c.sres is not None and c.sres.endswith("::get_flush_lock")),
    ("rotate", lambda c: c.sres is not None and c.sres.endswith("::rotate_memtable")),
    ("flush", lambda c: c.sres is not None and c.sres.endswith("AbstractTree::flush")),
    ("table-writer-finish", lambda c: c.sres == A.TABLE_MULTI_FINISH),
    ("state-lock", lambda c: c.sres == "std::sync::Mutex::lock"),
    ("version-lock", lambda c: c.sres == "std::sync::RwLock::write"),
    ("seqno", lambda c: c.sres == NEXT_SEQ),
    ("upgrade", lambda c: c.sres == A.UPGRADE_SEQNO),
]


def step_sequence(f):
    """The ingestion steps on the publishing path (calls from which the upgrade is reachable)."""
    ups = [c for c in f.calls if c.sres == A.UPGRADE_SEQNO]
    seq = []
    for (name, pred) in STEPS:
        cs = [c for c in f.calls if pred(c)]
        if ups and name != "upgrade":
            cs = [c for c in cs if ups[0].bb in f.reach_after(c.bb)]
        if cs:
            seq.append((name, cs[0]))
    return seq


def c14b(prog, R, rid="C14.b"):
    r = R.rule(rid, "ingestion step order and lock span; both implementations agree", "O,L,G")
    L = LockFacts(prog, c06.CLASSES)
    seqs = {}
    for f in finishers(prog):
        seq = step_sequence(f)
        seqs[f.path] = [n for n, _c in seq]
        missing = [n for n, _p in STEPS if n not in seqs[f.path]]
        r.check(not missing, "%s|all ingestion steps present" % f.path, "missing step(s): %s" % missing, f.where(), str(seqs[f.path]))
        # consecutive steps: earlier dominates later; fallible ones are success-ordered
        for (a, ca), (b, cb) in zip(seq, seq[1:]):
            ok = f.dominates(ca.bb, cb.bb)
            why = "dominates"
            if ok and a in ("flush", "table-writer-finish"):
                ok, why = success_ordered(f, ca, cb.bb)
            r.check(ok, "%s|%s => %s" % (f.path, a, b), "ingestion step order broken: %s does not precede %s (%s)" % (a, b, why),
                    f.where(cb.bb), why)
        # flush lock held from rotate to upgrade
        for (n, c) in seq:
            if n in ("flush-lock",):
                continue
            held = {x for (x, _m) in L.held_at(f, c.bb, must=True)}
            r.check("FL" in held, "%s|flush lock held at %s" % (f.path, n),
                    "the flush lock is not held at step %s: memtable writes can interleave with the ingestion" % n, f.where(c.bb))
        # tables enter at the top of L0
        ok = any(c.sres == "version::Version::with_new_l0_run" for g in prog.family(f) for c in g.calls)
        r.check(ok, "%s|tables enter through with_new_l0_run" % f.path,
                "ingested tables are not installed as the newest L0 run (older data could shadow them)", f.where())
    vals = list(seqs.values())
    r.check(len(vals) == 2 and vals[0] == vals[1], "Ingestion::finish ~ BlobIngestion::finish|same step sequence",
            "the two ingestion implementations diverge in their step sequence: %s" % seqs, "")
    # blob ingestion: blob writer finished before the table writer (pointers must resolve)
    bf = prog.need(A.BLOB_INGEST_FINISH)
    b1 = bf.calls_to(A.BLOB_MULTI_FINISH)
    t1 = bf.calls_to(A.TABLE_MULTI_FINISH)
    ok = bool(b1) and bool(t1) and success_ordered(bf, b1[0], t1[0].bb)[0]
    r.check(ok, "%s|blob writer finish => table writer finish" % bf.path,
            "the index tables are finalised before the blob files they point into", bf.where())
    r.floor(30)


def is_shift(n):
    """`<x>.key.seqno += <...global_seqno...>` / `<x>.seqno += ...`"""
    if n.get("k") != "assignop" or n.get("op") != "+=":
        return False
    l = hir_expr_str(n["l"])
    rr = hir_expr_str(n["r"])
    return l.endswith(".seqno") and "global_seqno" in rr


def has_shift(node):
    return any(is_shift(m) for m in hir_walk(node))


def c14c(prog, R, rid="C14.c"):
    r = R.rule(rid, "every table read path shifts entries by the table's global sequence number", "P,D")
    targets = [
        ("<table::iter::Iter as std::iter::Iterator>::next", 3),
        ("<table::iter::Iter as std::iter::DoubleEndedIterator>::next_back", 3),
        ("<table::scanner::Scanner as std::iter::Iterator>::next", 1),
        ("table::Table::point_read", 1),
    ]
    total = 0
    for name, want in targets:
        h = prog.hir.get(name)
        f = prog.fn(name)
        if h is None or f is None:
            r.anchor_missing("HIR of " + name)
            continue
        rets = hir_sites(h["body"], lambda n: n.get("k") == "ret" and n.get("e") is not None)
        data = []
        for s in rets:
            e = hir_expr_str(s.node["e"], 200)
            if "Err" in e or e in ("std::option::Option::None", "std::result::Result::Ok(std::option::Option::None)"):
                continue
            if not (e.startswith("std::option::Option::Some(") or e.startswith("std::result::Result::Ok(std::option::Option::Some(")):
                continue
            data.append(s)
        for i, s in enumerate(data):
            total += 1
            # a direct statement `<item>.key.seqno += ..global_seqno..` on the returned binding, earlier in an
            # enclosing block (not merely somewhere inside an earlier compound statement)
            ret_txt = hir_expr_str(s.node["e"], 200)
            shifted = False
            for b in s.before:
                if is_shift(b):
                    root = hir_expr_str(b["l"]).split(".")[0]
                    if "(%s)" % root in ret_txt:
                        shifted = True
            # the item was bound by `if let Some(item) = src.next().map(|mut v| { v.key.seqno += ..; v })`
            for (k, text, pol, node) in s.guards:
                if k == "iflet" and pol and isinstance(node, dict) and has_shift(node.get("init")):
                    shifted = True
            src = [text for (k, text, pol, node) in s.guards if k == "iflet" and pol][-1:] or ["?"]
            r.check(shifted, "%s|data exit #%d shifts by global_seqno" % (name, i + 1),
                    "an entry read from a data block is returned without adding the table's global sequence number "
                    "(an ingested table would serve seqno 0 entries: invisible to snapshots / shadowed by older data)",
                    f.where(), "bound by: %s" % src[0][:120])
        if len(data) < want:
            r.anchor_missing("%d data-bearing exits in %s (found %d)" % (want, name, len(data)))
    # snapshot translation in Table::get
    g = prog.need("table::Table::get")
    h = prog.hir.get(g.path)
    lets = [n for n in hir_walk(h["body"]) if n.get("k") == "let" and n["pat"].get("k") == "bind" and n["pat"]["n"] == "seqno"]
    ok = any(hir_expr_str(n["init"]) == "seqno.saturating_sub(self.global_seqno())" for n in lets)
    r.check(ok, "%s|snapshot translated with saturating_sub(global_seqno)" % g.path,
            "Table::get no longer translates the snapshot seqno into the table's local numbering", g.where(),
            str([hir_expr_str(n["init"]) for n in lets]))
    # the translated value is what point_read receives
    pr = [n for n in hir_walk(h["body"]) if n.get("k") == "mcall" and n.get("m") == "point_read"]
    r.check(bool(pr) and all(hir_expr_str(n["a"][1]) == "seqno" for n in pr), "%s|point_read gets the translated seqno" % g.path,
            "point_read is called with the untranslated snapshot", g.where())
    # get_highest_seqno adds it
    hs = prog.hir.get("table::Table::get_highest_seqno")
    s = hir_expr_str(hs["body"]) if hs else ""
    r.check("global_seqno" in s and "+" in s and "seqnos.1" in s, "table::Table::get_highest_seqno|metadata max + global_seqno",
            "get_highest_seqno ignores the global sequence number", "", s)
    # the scanner is created with the table's global seqno
    sc = prog.hir.get("table::Table::scan")
    ok = False
    if sc:
        for n in hir_walk(sc["body"]):
            if n.get("k") == "call" and (n.get("p") or "").endswith("Scanner::new"):
                ok = any("global_seqno" in hir_expr_str(a) for a in n["a"])
    r.check(ok, "table::Table::scan|Scanner::new(.., self.global_seqno())", "the compaction scanner is created without the global seqno", "")
    r.floor(12)


def c14d(prog, R):
    r = R.rule("C14.d", "ingested files are durable before the version naming them is published", "O")
    for f in finishers(prog):
        ups = f.calls_to(A.UPGRADE_SEQNO)
        prods = f.calls_to(A.TABLE_MULTI_FINISH, A.BLOB_MULTI_FINISH)
        if not ups or not prods:
            r.anchor_missing("writer finish / upgrade in " + f.path)
            continue
        for p in prods:
            if ups[0].bb not in f.reach_after(p.bb):
                continue   # the empty-ingestion exit finishes (removes) its writer and publishes nothing
            ok, why = success_ordered(f, p, ups[0].bb)
            r.check(ok, "%s|%s => upgrade_version_with_seqno" % (f.path, short(p.sres)),
                    "the version is published although a writer's finish (sync) did not succeed: " + why, f.where(ups[0].bb), why)
    r.floor(3)


def c14h(prog, R, rid="C14.h"):
    """`all of its entries (values and tombstones)`: what the caller hands to write / write_tombstone / write_weak_tombstone
    reaches the table writer with that value type, through every wrapper (AnyIngestion, BlobIngestion)."""
    from rules.engine import origins
    r = R.rule(rid, "ingestion entry points keep the value type through every wrapper", "G,D")
    base = {"write": "Value", "write_tombstone": "Tombstone", "write_weak_tombstone": "WeakTombstone"}
    for m, vt in base.items():
        f = prog.fn("tree::ingest::Ingestion::%s" % m)
        if f is None:
            r.anchor_missing("tree::ingest::Ingestion::%s" % m)
            continue
        got = set()
        for c in f.calls:
            if c.sres.endswith("InternalValue::from_components") and len(c.args) >= 4:
                for o in origins(f, c.args[3]):
                    if o.kind == "agg":
                        got.add(str(o.extra.get("variant")))
                    elif o.kind == "const":
                        got.add(str(o.what).split("::")[-1])
        r.check(got == {vt}, "tree::ingest::Ingestion::%s|writes ValueType::%s" % (m, vt),
                "Ingestion::%s writes entries of type %s" % (m, sorted(got)), f.where(), str(sorted(got)))
    INNER = ("write", "write_tombstone", "write_weak_tombstone", "write_indirection")
    n = 0
    for p, f in sorted(prog.fns.items()):
        if not (p.startswith("blob_tree::ingest::BlobIngestion") or p.startswith("ingestion::AnyIngestion")):
            continue
        m = p.split("::")[-1]
        if m not in ("write_tombstone", "write_weak_tombstone"):
            continue
        n += 1
        called = {c.sres.split("::")[-1] for c in f.calls if c.local and c.sres.split("::")[-1] in INNER and "ngestion" in c.sres}
        r.check(called == {m}, "%s|delegates to %s of the wrapped ingestion" % (p, m),
                "%s forwards to %s: the entry is written with another value type than the caller asked for" % (p, sorted(called)),
                f.where(), str(sorted(called)))
    if n < 4:
        r.anchor_missing("tombstone wrappers of BlobIngestion / AnyIngestion (found %d, confirmed 4)" % n)
    r.floor(7)
