"""C17 — compaction filters act exactly as their verdicts say and spare old snapshots.

Decided: C17.a–e of DESIGN.md §3. Not decided: read results after compaction over histories / layouts."""
from rules.engine import (origins, deep_origins, constituent_origins, origin_callees, short, hir_walk, hir_expr_str, hir_sites, pat_str)
from rules import anchors as A
from rules.stream_rules import StreamModel

EXPLANATION = (
    "Static decision of the compaction-filter clauses: (a) the verdict table of StreamFilterAdapter::filter_item maps "
    "Keep->Keep, Destroy->Drop, Remove->Replace(Tombstone, empty), RemoveWeak->Replace(WeakTombstone, empty), "
    "ReplaceValue(v)->Replace(handle_write(v)) and a missing filter yields Keep (read from the match arms, exhaustive); "
    "(b) in CompactionStream::next the filter is called only under !head.is_tombstone(); (c) the Replace arm writes only "
    "head.value and head.key.value_type (key and seqno untouched) and handle_write stores the blob under the previous key and "
    "seqno; (d) handle_write keeps small values inline and separates large ones, and the lazily created blob writer is the one "
    "merge_tables finishes and hands to the finisher, which passes it to with_merge(new_blob_files); (e) old snapshots: "
    "history discipline (C02.a) and commit-on-current (C06.c). Not decided: read results after compaction over histories.")
KINDS = ["H", "D"]
LEVEL_TEXT = ("Static match-arm / guard / def-use analysis of the filter adapter and of the compaction stream: the verdict "
              "mapping is read exhaustively from the code, the tombstone bypass and the fields a replacement may touch are "
              "structural facts of CompactionStream::next. What a key reads as after a compaction over real layouts is not "
              "decided.")

ADAPTER = "<compaction::filter::StreamFilterAdapter<'a, 'b> as compaction::stream::StreamFilter>::filter_item"
HANDLE_WRITE = "compaction::filter::StreamFilterAdapter::<'a, 'b>::handle_write"

EXPECT = {
    "compaction::filter::Verdict::Destroy": "std::result::Result::Ok(compaction::stream::StreamFilterVerdict::Drop)",
    "compaction::filter::Verdict::Keep": "std::result::Result::Ok(compaction::stream::StreamFilterVerdict::Keep)",
    "compaction::filter::Verdict::Remove":
        "std::result::Result::Ok(compaction::stream::StreamFilterVerdict::Replace((value_type::ValueType::Tombstone, slice::slice_default::Slice::empty())))",
    "compaction::filter::Verdict::RemoveWeak":
        "std::result::Result::Ok(compaction::stream::StreamFilterVerdict::Replace((value_type::ValueType::WeakTombstone, slice::slice_default::Slice::empty())))",
    "compaction::filter::Verdict::ReplaceValue(new_value)":
        "self.handle_write(&item.key, new_value).map(compaction::stream::StreamFilterVerdict::Replace)",
}


def run(prog, R, tier="quick", only_rule=None):
    c17a(prog, R)
    c17b(prog, R)
    c17c(prog, R)
    c17d(prog, R)
    from rules.props import c02, c06
    c02.c02a(prog, R, rid="C17.e1")
    c06.c06c(prog, R, rid="C17.e2")
    # snapshots taken before the compaction keep resolving against the version they pinned (also the blob side of a scan)
    c02.c02d(prog, R, rid="C17.e3")
    # "absent for Remove": the tombstone a Remove verdict writes must survive until the last level
    from rules.props import c01
    c01.c01c(prog, R, rid="C17.f")
    c17g(prog, R)
    # "snapshots taken before the compaction are unaffected": the version a snapshot pinned is not trimmed at the watermark
    from rules.props import c20
    c20.c20d(prog, R, rid="C17.h")


def c17a(prog, R):
    r = R.rule("C17.a", "verdict table of the filter adapter", "B")
    h = prog.hir.get(ADAPTER)
    if h is None:
        r.anchor_missing("HIR of StreamFilterAdapter::filter_item")
        return
    matches = [n for n in hir_walk(h["body"]) if n.get("k") == "match" and any("compaction::filter::Verdict::" in pat_str(a["pat"]) for a in n["arms"])]
    if len(matches) != 1:
        r.anchor_missing("match over Verdict in filter_item (found %d)" % len(matches))
        return
    arms = {pat_str(a["pat"]): hir_expr_str(a["b"], 400).replace("slice::slice_bytes::Slice", "slice::slice_default::Slice") for a in matches[0]["arms"]}
    variants = [v["name"] for v in prog.adts["compaction::filter::Verdict"]["variants"]]
    for v in variants:
        hit = [k for k in arms if k.split("(")[0].endswith("::" + v)]
        r.check(len(hit) == 1, "Verdict::%s|has exactly one arm" % v, "verdict %s is not handled by its own arm" % v, "")
    for pat, want in EXPECT.items():
        got = arms.get(pat)
        r.check(got == want, "verdict %s -> %s" % (pat.split("::")[-1], want.split("StreamFilterVerdict::")[-1][:60]),
                "the filter adapter maps %s to `%s` (expected `%s`)" % (pat.split("::")[-1], got, want), "", str(got)[:160])
    # no filter => Keep
    sites = hir_sites(h["body"], lambda n: n.get("k") == "ret" and n.get("e") is not None)
    ok = any(hir_expr_str(s.node["e"]) == "std::result::Result::Ok(compaction::stream::StreamFilterVerdict::Keep)"
             and any(g.startswith("!let") and "self.filter" in g for g in s.guard_texts()) for s in sites)
    r.check(ok, "no filter installed -> Keep", "without a filter the adapter no longer answers Keep", "")
    # the scrutinee is the user's verdict for this very item
    scr = hir_expr_str(matches[0]["e"], 300)
    r.check("filter.filter_item(" in scr and "ItemAccessor{item, shared}" in scr.replace(" ", "").replace("ItemAccessor{item,shared}", "ItemAccessor{item, shared}"),
            "verdict is the user's filter_item(ItemAccessor{item,..})", "scrutinee changed: %s" % scr, "", scr[:160])
    r.floor(9)


def c17b(prog, R):
    r = R.rule("C17.b", "tombstones bypass the filter", "K")
    sm = StreamModel(prog)
    calls = sm.calls("filter_item")
    if not calls:
        r.anchor_missing("filter_item call in CompactionStream::next")
    for s in calls:
        g = sm.guards(s)
        r.check("!HEAD.is_tombstone()" in g, "%s|filter_item(&head) only under !head.is_tombstone()" % sm.path,
                "the compaction filter can be shown a tombstone (ItemAccessor::value would hit unreachable!())", "", " & ".join(g))
        r.check([sm.norm(hir_expr_str(a)) for a in s.node["a"]] == ["&HEAD"], "%s|the filter sees the head item" % sm.path,
                "the filter is shown something else than the item being decided", "")
    r.floor(2)


def c17c(prog, R):
    r = R.rule("C17.c", "a replacement keeps key and sequence number", "W,D")
    sm = StreamModel(prog)
    pat = "compaction::stream::StreamFilterVerdict::Replace"
    in_arm = [s for s in sm.sites_all if any(("~ " + pat) in t for t in sm.guards(s))]
    writes = sorted({sm.norm(hir_expr_str(s.node["l"])) for s in in_arm if s.node.get("k") in ("assign", "assignop")})
    r.check(writes == ["HEAD.key.value_type", "HEAD.value"], "%s|Replace arm writes exactly head.value and head.key.value_type" % sm.path,
            "the Replace arm modifies %s: a replacement must keep the user key and the sequence number" % writes, "", str(writes))
    vals = {sm.norm(hir_expr_str(s.node["l"])): hir_expr_str(s.node["r"]) for s in in_arm if s.node.get("k") == "assign"}
    r.check(vals.get("HEAD.value") == "new_value" and vals.get("HEAD.key.value_type") == "new_type",
            "%s|head takes (new_type, new_value) of the verdict" % sm.path, "the replacement values are crossed: %s" % vals, "", str(vals))
    # every other write to head in the function: only the seqno zeroing under its own guard
    allw = [(sm.norm(hir_expr_str(s.node["l"])), sm.guards(s)) for s in sm.sites_all if s.node.get("k") in ("assign", "assignop")
            and sm.norm(hir_expr_str(s.node["l"])).startswith("HEAD.")]
    other = [(l, g) for (l, g) in allw if l not in ("HEAD.key.value_type", "HEAD.value")]
    ok = all(l == "HEAD.key.seqno" and "self.zero_seqnos" in g and "(HEAD.key.seqno < self.gc_seqno_threshold)" in g for (l, g) in other)
    r.check(ok, "%s|the only other write to head is the guarded seqno zeroing" % sm.path, "head is modified elsewhere: %s" % other, "")
    # handle_write stores the blob under the previous key and seqno
    h = prog.hir.get(HANDLE_WRITE) or prog.hir.get(prog.fn(HANDLE_WRITE).path if prog.fn(HANDLE_WRITE) else "")
    if h is None:
        r.anchor_missing("handle_write HIR")
    else:
        ws = [n for n in hir_walk(h["body"]) if n.get("k") == "mcall" and n.get("m") == "write" and "BlobFile" in (n.get("rt") or "") or
              (n.get("k") == "mcall" and n.get("m") == "write" and hir_expr_str(n["r"]) == "writer")]
        ok = bool(ws) and all([hir_expr_str(a) for a in n["a"]] == ["&prev_key.user_key", "prev_key.seqno", "&new_value"] for n in ws)
        r.check(ok, "handle_write|blob written as (prev_key.user_key, prev_key.seqno, new_value)",
                "the replacement blob is stored under another key/seqno than the entry it replaces", "",
                str([[hir_expr_str(a) for a in n["a"]] for n in ws]))
    r.floor(4)


def c17d(prog, R, rid="C17.d"):
    r = R.rule(rid, "replacement values are separated like ordinary writes and their blob file is published", "B,D")
    f = prog.fn(HANDLE_WRITE)
    h = prog.hir.get(f.path) if f else None
    if h is None:
        r.anchor_missing("handle_write")
        return
    rets = hir_sites(h["body"], lambda n: n.get("k") == "ret" and n.get("e") is not None)
    inline = [s for s in rets if hir_expr_str(s.node["e"]) == "std::result::Result::Ok((value_type::ValueType::Value, new_value))"]
    g1 = any(any(g.startswith("!let") and "self.blob_opts" in g for g in s.guard_texts()) for s in inline)
    g2 = any("(value_size < blob_opts.separation_threshold)" in s.guard_texts() for s in inline)
    r.check(g1 and g2 and len(inline) == 2, "handle_write|inline when no kv options or size < threshold",
            "the inline/separate decision of a replacement differs from `no options or size < separation_threshold`", "",
            str([s.guard_texts() for s in inline]))
    tail = hir_expr_str(h["body"]["b"].get("e"), 300) if h["body"].get("k") == "blockx" else ""
    r.check("value_type::ValueType::Indirection" in tail and "indirection.encode_into_vec()" in tail, "handle_write|otherwise returns (Indirection, encoded pointer)",
            "a separated replacement is not returned as an Indirection", "", tail)
    lets = {n["pat"]["n"]: hir_expr_str(n["init"], 200) for n in hir_walk(h["body"]) if n.get("k") == "let" and n["pat"].get("k") == "bind" and "init" in n}
    r.check(lets.get("value_size") == "new_value.len() as u32", "handle_write|value_size = new_value.len()", "size is not the replacement's length", "", str(lets.get("value_size")))
    # the writer slot is the one merge_tables finishes
    mt = prog.need(A.MERGE_TABLES)
    news = [c for c in mt.calls if c.sres and c.sres.endswith("StreamFilterAdapter::new")]
    fin = [c for c in mt.calls if c.sres == "std::option::Option::map" and A.BLOB_MULTI_FINISH in prog.callbacks(c)]
    ok = False
    if news and fin:
        a = {(o.kind, str(o.what), o.bb) for arg in news[0].args for o in origins(mt, arg)}
        b = {(o.kind, str(o.what), o.bb) for o in origins(mt, fin[0].args[0])}
        ok = bool(a & b)
    r.check(ok, "%s|the adapter's blob writer slot is the one finished after the merge" % mt.path,
            "the blob writer used by the filter is not the one merge_tables finishes (its blob file would never be published)", mt.where())
    # extra_blob_files -> compactor.finish -> with_merge(new_blob_files)
    ff = [c for c in mt.calls if c.path == A.FLAVOUR_FINISH]
    ok = False
    for c in ff:
        idx = [i for i, t in enumerate(c.arg_tys) if t.startswith("std::vec::Vec<vlog::blob_file::BlobFile")]
        if idx:
            names = origin_callees(mt, c.args[idx[0]], depth=6)
            ok = "std::option::Option::map" in names or "std::result::Result::inspect_err" in names
    r.check(ok, "%s|finished filter blob files are handed to compactor.finish" % mt.path,
            "the blob files written for replacements are not passed to the finisher", mt.where())
    for name in (A.STD_FINISH, A.RELOC_FINISH):
        f2 = prog.need(name)
        pidx = [i for i in range(1, f2.argc + 1) if f2.local_ty(i).startswith("std::vec::Vec<vlog::blob_file::BlobFile")]
        ok = False
        for g in prog.family(f2):
            for c in g.calls_to("version::Version::with_merge"):
                for a in c.args:
                    for (gg, o) in constituent_origins(prog, g, a):
                        if gg.path == f2.path and o.kind == "param" and o.what in pidx:
                            ok = True
            # Relocating: extra files are appended to created_blob_files (Vec::extend) which goes into with_merge
            for c in g.calls:
                if c.sres and c.sres.endswith("::extend") and c.args and len(c.args) > 1:
                    if any(o.kind == "param" and o.what in pidx for o in origins(g, c.args[1])):
                        ok = True
        r.check(ok, "%s|extra_blob_files reach with_merge(new_blob_files)" % name,
                "blob files created for filter replacements do not enter the published version", f2.where())
    from rules.props import c08
    c08.with_merge_guards(prog, r)
    r.floor(11)


def c17g(prog, R, rid="C17.g"):
    """A blob writer compresses what it is given only in `Standard` mode; `Passthrough` records the compression type in the blob
    file's metadata but copies the bytes as they are - right only for relocation, which moves already-compressed frames with
    `write_raw`.  A writer that is fed plain values (flush, ingestion, compaction-filter replacements) in Passthrough mode
    produces files whose header says "compressed" over raw bytes: every read of such a value fails (or, for a codec without
    framing, returns garbage).  Census over all `use_compression` sites: Passthrough iff the function feeds the writer raw
    frames (it is the relocation set-up in merge_tables)."""
    from rules.engine import hir_walk, hir_expr_str
    r = R.rule(rid, "a blob writer fed plain values compresses them itself (Standard); Passthrough only for relocation", "W,B")
    n = 0
    for path, h in prog.hir.items():
        for c in hir_walk(h["body"]):
            if c.get("k") == "mcall" and c.get("m") == "use_compression" and c.get("a"):
                a = c["a"][0]
                txt = hir_expr_str(a, 200)
                if "BlobCompression" not in txt and "blob_compression" not in txt:
                    continue
                n += 1
                variant = (a.get("p") or "").split("::")[-1] if a.get("k") == "call" else txt
                relocation = path == "compaction::worker::merge_tables"
                if path.startswith("vlog::blob_file::multi_writer::") or path.startswith("vlog::blob_file::writer::"):
                    # the multi-writer hands its own setting down to each rotated writer
                    r.check("self.blob_compression" in txt or "blob_compression" in txt, "%s|forwards its own compression mode" % path,
                            "the rotating writer does not hand its compression mode to the file writer", "", txt)
                    continue
                want = "Passthrough" if relocation else "Standard"
                r.check(variant == want, "%s|use_compression(BlobCompression::%s(..))" % (path, want),
                        "a blob writer that is fed %s is created in %s mode: the file's metadata and its bytes disagree about "
                        "compression and the values cannot be read back" % ("raw frames" if relocation else "plain values", variant), "", txt)
    if n < 4:
        r.anchor_missing("use_compression sites (found %d, confirmed 4)" % n)
    r.floor(4)
