"""C04 — flushed data survives reopen and reopen restores exactly the flushed state.

Decided: C04.a–d of DESIGN.md §3 (+ shared C05.a–c). Not decided: equality of contents after reopen."""
from rules.engine import (deep_origins, origins, origin_callees, short, hir_walk, hir_expr_str, hir_sites, codec_skeleton, split_sections,
                          compare_skeletons, success_ordered, error_blocks, control_deps_transitive, switch_condition)
from rules import anchors as A

EXPLANATION = (
    "Static decision of the reopen clauses: (a) the version file codec agrees section by section between "
    "Version::encode_into and version::recovery::recover (tables: u8 levels / u8 runs / u32 tables / u64 id, u8 type, u128 "
    "checksum, u64 global_seqno; blob_files; blob_gc_stats via FragmentationMap; tree_type), with name hints compared for "
    "same-width fields; the `current` record (u64 id, u128 checksum, u8 type) agrees between persist_version and "
    "get_current_version; every section the manifest decoder asks for is written; (b) a version becomes visible only after "
    "it was persisted (C02.a); (c) the table-id counter restarts at max(recovered ids)+1 and the blob-file-id counter at "
    "max(blob ids)+1; (d) recovery refuses when a named table / blob file is missing and deletes unnamed files only after "
    "the version was recovered; plus the shared durability clauses C05.a-c. Not decided: equality of the reopened contents.")
KINDS = ["G", "D", "O"]
LEVEL_TEXT = ("Static codec-agreement, def-use and ordering analysis of persistence and recovery: writer and reader of the "
              "version file and of `current` are compared step by step, id counters are shown to restart above everything "
              "recovered, recovery's completeness tests lead to errors. Equality of the reopened contents with the flushed "
              "state needs run-time values and is not decided.")


def run(prog, R, tier="quick", only_rule=None):
    c04a(prog, R)
    from rules.props import c02, c05
    c02.c02a(prog, R, rid="C04.b")
    c04c(prog, R)
    c04d(prog, R)
    c05.c05a(prog, R, rid="C04.e")
    # a failed operation must not delete files the (still current) version names, or the next reopen fails
    c05.c05c(prog, R, rid="C04.f")
    c04g(prog, R)
    c04h(prog, R)
    # a version file left by a failed attempt is overwritten (truncated) by the next one: else `current`'s checksum covers a
    # prefix and the next open fails
    from rules.props import c16
    c16.c16e(prog, R, rid="C04.i")


def c04a(prog, R, rid="C04.a"):
    r = R.rule(rid, "version file and `current` codecs agree between writer and reader", "G")
    enc = prog.hir.get("version::Version::encode_into")
    dec = prog.hir.get("version::recovery::recover")
    if not enc or not dec:
        r.anchor_missing("Version::encode_into / recovery::recover HIR")
        return
    es = split_sections(codec_skeleton(enc["body"], "w"))
    ds = split_sections(codec_skeleton(dec["body"], "r"))
    vocab = ("id", "checksum", "global_seqno", "len", "bytes", "on_disk_bytes")
    for sec in ("tables", "blob_files", "blob_gc_stats", "tree_type"):
        e, d = es.get(sec), ds.get(sec)
        if e is None or d is None:
            r.bad("v<N> section %s" % sec, "section %s is not %s" % (sec, "written" if e is None else "read"), "")
            continue
        ok, msg = compare_skeletons(e, d, vocab)
        r.check(ok, "v<N> section %s|encode_into <-> recover" % sec, msg, "", msg)
    missing = sorted(set(ds) - set(es) - {""})
    r.check(not missing, "v<N>|every section recover() reads is written", "sections read but not written: %s" % missing, "",
            "read %s" % sorted(k for k in ds if k))
    # manifest decoder
    md = prog.hir.get("manifest::Manifest::decode_from")
    if md:
        ms = split_sections(codec_skeleton(md["body"], "r"))
        missing = sorted(set(ms) - set(es) - {""})
        r.check(len(ms) >= 4 and not missing, "manifest|every section Manifest::decode_from reads is written",
                "manifest sections read but not written: %s" % missing, "", str(sorted(k for k in ms if k)))
        for sec in ("format_version", "tree_type", "level_count"):
            e, d = es.get(sec), ms.get(sec)
            if e is not None and d is not None:
                ok, msg = compare_skeletons(e, d, ())
                r.check(ok, "manifest section %s|encode_into <-> decode_from" % sec, msg, "", msg)
    # current record
    pv = prog.hir.get(A.PERSIST_VERSION)
    gc = prog.hir.get("version::recovery::get_current_version")
    if pv and gc:
        e = [t for t in codec_skeleton(pv["body"], "w") if t[0] in ("u8", "u16", "u32", "u64", "u128")]
        # only the writes into current_file_content
        cur = []
        for n in hir_walk(pv["body"]):
            if n.get("k") == "mcall" and (n.get("m") or "").startswith("write_u") and hir_expr_str(n["r"]) == "current_file_content":
                cur.append((n["m"].replace("write_", ""), None))
        d = [t for t in codec_skeleton(gc["body"], "r") if t[0] in ("u8", "u16", "u32", "u64", "u128")]
        r.check([x[0] for x in cur] == [x[0] for x in d] == ["u64", "u128", "u8"], "`current`|persist_version <-> get_current_version (u64 id, u128 checksum, u8 type)",
                "the `current` record layout differs between writer %s and reader %s" % ([x[0] for x in cur], [x[0] for x in d]), "")
        hints = [x[1] for x in d]
        r.check(hints[:2] == ["id", "checksum"], "`current`|reader binds (id, checksum) in file order", "reader binds %s" % hints, "")
    else:
        r.anchor_missing("persist_version / get_current_version HIR")
    # the table entry fields come from the right accessors
    calls = [hir_expr_str(n, 120) for n in hir_walk(enc["body"]) if n.get("k") == "mcall" and (n.get("m") or "").startswith("write_u")]
    want = ["writer.write_u64(table.id())", "writer.write_u128(table.checksum().into_u128())", "writer.write_u64(table.global_seqno())"]
    r.check(all(w in calls for w in want), "v<N> tables|entry = (table.id(), checksum, table.global_seqno())",
            "a table entry is written from other accessors than id / checksum / global_seqno", "", str(calls)[:300])
    # the structure is written and rebuilt in its in-memory order (level by level, run by run, table by table): the order
    # of runs is the read precedence and the order inside a run is what Run::get_for_key's binary search relies on
    import re as _re
    REORDER = _re.compile(r"::(sort\w*|rev|reverse|swap\w*|dedup\w*|retain\w*|filter\w*|skip\w*|take\w*|step_by|chain|zip|rotate_\w+)$")
    loops = [hir_expr_str(n["iter"], 200) for n in hir_walk(enc["body"]) if n.get("k") == "for"]
    r.check(loops[:3] == ["self.iter_levels()", "level.iter()", "run.iter()"], "v<N> tables|written level by level, run by run, table by table",
            "Version::encode_into no longer walks levels / runs / tables directly in their in-memory order: %s" % loops[:3], "", str(loops))
    for name in ("version::Version::encode_into", "version::Version::from_recovery", "version::recovery::recover"):
        bad = []
        for p_, g_ in prog.fns.items():
            if p_ == name or p_.startswith(name + "::{closure"):
                for c in g_.calls:
                    if not REORDER.search(c.sres or ""):
                        continue
                    # the blob file list is a map keyed by id: sorting the (id, checksum) pairs is not a reordering of
                    # the level / run / table structure
                    if c.arg_tys and "(u64, checksum::Checksum)" in c.arg_tys[0] and "RecoveredTable" not in c.arg_tys[0]:
                        continue
                    bad.append(short(c.sres))
        r.check(not bad, "%s|no reordering or filtering of levels / runs / tables" % name,
                "%s reorders or filters what it writes / rebuilds (%s): the version file no longer decodes to the published structure"
                % (short(name), sorted(set(bad))), "", str(sorted(set(bad))))
    r.floor(14)


def c04c(prog, R, rid="C04.c"):
    r = R.rule(rid, "id counters restart above everything that was recovered", "D")
    f = prog.need("tree::Tree::recover")
    ok = False
    detail = ""
    for i, b in enumerate(f.blocks):
        for st in b["stmts"]:
            if st["k"] == "assign" and st["rv"]["k"] == "agg" and st["rv"].get("adt") == "tree::inner::TreeInner":
                idx = st["rv"]["fields"].index("table_id_counter")
                names = origin_callees(f, st["rv"]["ops"][idx], depth=7)
                detail = str(sorted(short(x) for x in names))
                has_max = any(x.endswith("Iterator::max") for x in names)
                has_ids = "version::Version::iter_tables" in names
                # + 1
                plus = False
                for o in origins(f, st["rv"]["ops"][idx]):
                    if o.kind == "call" and o.extra.sres.endswith("SequenceNumberCounter::new"):
                        for oo in origins(f, o.extra.args[0]):
                            if oo.kind == "bin" and str(oo.what).startswith("Add"):
                                plus = True
                ok = has_max and has_ids and plus
    r.check(ok, "%s|table_id_counter = max(recovered table ids) + 1" % f.path,
            "the table id counter does not restart above the recovered ids: a new table would overwrite / collide with an "
            "existing file", f.where(), detail)
    g = prog.need("blob_tree::BlobTree::open")
    sets = [c for c in g.calls if c.sres and c.sres.endswith("SequenceNumberCounter::set")]
    ok = False
    detail = ""
    for c in sets:
        names = origin_callees(g, c.args[1], depth=7)
        detail = str(sorted(short(x) for x in names))
        ok = any(x.endswith("Iterator::max") for x in names) and any("list_ids" in x for x in names) and \
            any(x.endswith("Option::map") or "map" in x for x in names)
        # ids that only survive in the persisted GC statistics count as well (finding F8)
        gc_ok = any(x.endswith("Version::gc_stats") for x in names) and any(x.endswith("::keys") for x in names)
        r.check(gc_ok, "%s|blob id counter also continues above the ids in the GC statistics" % g.path,
                "the blob file id counter can restart at an id that the persisted GC statistics still carry an entry for: the new "
                "blob file inherits stale garbage and can be judged dead while referenced", g.where(c.bb), detail)
        recv = origins(g, c.args[0])
        ok = ok and any("blob_file_id_counter" in o.path for o in recv)
    h = prog.hir.get(g.path)
    plus = any(n.get("k") == "bin" and n["op"] == "+" and hir_expr_str(n) == "(x + 1)" for n in hir_walk(h["body"])) if h else False
    r.check(ok and plus, "%s|blob_file_id_counter.set(max(blob ids) + 1)" % g.path,
            "the blob file id counter does not restart above the recovered blob file ids", g.where(), detail)
    # an id counter is never set back in a running tree: files of earlier versions that snapshots (or the free list) still
    # hold would be overwritten by a new file of the same id, and unlinked when the old handle drops
    resets = []
    for c in prog.all_calls("seqno::SequenceNumberCounter::set"):
        flds = {o.path[-1] for (_g, o) in deep_origins(prog, c.fn, c.args[0]) if o.path}
        if flds & {"blob_file_id_counter", "table_id_counter", "memtable_id_counter"} and c.fn.path != "blob_tree::BlobTree::open":
            resets.append("%s (%s)" % (c.fn.path, sorted(flds)))
    r.check(not resets, "id counters|set only while opening the tree", "a file / memtable id counter is set outside of open: %s" % resets, "", str(resets))
    r.floor(4)


def leads_to_err(f, bb):
    """Every path from bb to a return passes an error block (the branch returns Err)."""
    errs = error_blocks(f)
    r = f.reach([bb], cut_blocks=errs)
    return not (r & set(f.return_blocks()))


def c04d(prog, R):
    r = R.rule("C04.d", "recovery refuses a missing file and deletes only after the version was recovered", "O,W,K")
    for name, cmp_txt in (("tree::Tree::recover_levels", "(tables.len() < cnt)"), ("vlog::recover_blob_files", "(blob_files.len() < ids.len())")):
        f = prog.need(name)
        h = prog.hir.get(name)
        sites = hir_sites(h["body"], lambda n: n.get("k") == "ret" and n.get("e") is not None and "Err(" in hir_expr_str(n["e"]))
        ok = any(s.guard_texts() == [cmp_txt] for s in sites)    # exactly this condition: a narrower one lets a missing file pass
        r.check(ok, "%s|%s => Err" % (name, cmp_txt), "recovery no longer fails when a file named by the version is missing", f.where(),
                str([s.guard_texts()[-1:] for s in sites]))
    from rules.props import c20
    f = prog.need("tree::Tree::recover_levels")
    fr = f.calls_to("version::Version::from_recovery")
    for c in f.calls_to(A.REMOVE_FILE) + f.calls_to("tree::Tree::cleanup_orphaned_version"):
        ok, why = success_ordered(f, fr[0], c.bb) if fr else (False, "no from_recovery")
        r.check(ok, "%s|from_recovery => %s" % (f.path, short(c.sres)), "recovery deletes before the version is recovered: " + why, f.where(c.bb), why)
    c20.scan_dirs(prog, r)
    # orphans are exactly the directory entries not named by the version (else-branch of the lookup)
    h = prog.hir.get("tree::Tree::recover_levels")
    pushes = hir_sites(h["body"], lambda n: n.get("k") == "mcall" and n.get("m") == "push" and hir_expr_str(n["r"]) == "orphaned_tables")
    ok = bool(pushes) and all(any(g.startswith("!let") and "table_map.get(&table_id)" in g for g in s.guard_texts()) for s in pushes)
    r.check(ok, "tree::Tree::recover_levels|orphan = directory entry not in the version's table map",
            "a table file can be classified orphaned although the version names it", "")
    r.floor(8)


FRESH = ("version::Version::with_new_l0_run", "version::Version::with_merge", "version::Version::with_moved",
         "version::Version::with_dropped", "version::Version::new")


def c04g(prog, R, rid="C04.g"):
    """Every history entry appended by upgrade_version* carries a version with a fresh id (current id + 1).  persist_version
    writes `v<id>` and SuperVersions::maintenance unlinks `v<id>` of every entry it pops: two entries with the same id make the
    version GC delete the file `current` points to, and the next open fails."""
    from rules.engine import must_pass
    from rules.props.c07 import store_blocks
    r = R.rule(rid, "every published history entry has a fresh version id", "P,D")
    SV = "version::super_version::SuperVersion"
    tag = ".version:" + SV
    n = 0
    seen = set()
    for c in prog.all_calls(A.UPGRADE, A.UPGRADE_SEQNO):
        for cb in prog.callbacks(c):
            cf = prog.fns.get(cb)
            if cf is None or cb in seen:
                continue
            seen.add(cb)
            n += 1
            sb = store_blocks(cf, tag)
            srcs = set()
            for i in sb:
                for st in cf.blocks[i]["stmts"]:
                    if st["k"] == "assign" and "p" in st["to"] and st["to"]["p"][-1] == tag:
                        srcs |= {o.extra.sres for o in origins(cf, st["rv"].get("op")) if o.kind == "call"}
                t = cf.blocks[i]["term"]
                if t["k"] == "call" and t.get("dest") and "p" in t["dest"] and t["dest"]["p"][-1] == tag:
                    cc = cf.call_at(i)
                    if cc is not None:
                        srcs.add(cc.sres)
            # or the SuperVersion is built as a literal
            lit = False
            for b in cf.blocks:
                for st in b["stmts"]:
                    if st["k"] == "assign" and st["rv"]["k"] == "agg" and st["rv"].get("adt") == SV:
                        idx = st["rv"]["fields"].index("version")
                        got = {o.extra.sres for o in origins(cf, st["rv"]["ops"][idx]) if o.kind == "call"}
                        lit = bool(got) and got <= set(FRESH)
            ok = lit or (bool(sb) and must_pass(cf, sb) and bool(srcs) and srcs <= set(FRESH))
            # Version::new takes the id from its caller: it has to be the id of the closure's parameter (the version current at
            # commit) plus one - any other id (e.g. the cleared version's own) rewrites a live version file in place
            for nc in [c_ for c_ in cf.calls if c_.sres == "version::Version::new"]:
                okid = False
                for o in origins(cf, nc.args[0]):
                    if o.kind == "bin" and str(o.what).startswith("Add"):
                        ops_ = (o.extra["a"], o.extra["b"])
                        one = any(x.get("o") == "const" and str(x.get("v")) == "1" for x in ops_)
                        cur = any(oo.kind == "call" and oo.extra.sres == "version::Version::id" and
                                  any(p_.kind == "param" and p_.what == 2 for p_ in origins(cf, oo.extra.args[0]))
                                  for x in ops_ for oo in origins(cf, x))
                        okid = okid or (one and cur)
                ok = ok and okid
            r.check(ok, "%s|the returned entry's version comes from a with_* / new constructor on every success path" % cb,
                    "a transition can return an entry whose version (and version id) is the current one: the history gets two entries "
                    "with the same id, the version file is rewritten in place and later unlinked by the version GC while `current` "
                    "still names it", cf.where(), str(sorted(short(x) for x in srcs)))
    if n < 9:
        r.anchor_missing("transition closures of upgrade_version* (found %d, confirmed 9)" % n)
    # each constructor numbers the new version self.id + 1
    VI = "version::VersionInner"
    for name in FRESH[:4]:
        g = prog.need(name)
        ok = False
        for b in g.blocks:
            for st in b["stmts"]:
                if st["k"] == "assign" and st["rv"]["k"] == "agg" and st["rv"].get("adt") == VI:
                    idx = st["rv"]["fields"].index("id")
                    for o in origins(g, st["rv"]["ops"][idx]):
                        if o.kind == "bin" and str(o.what).startswith("Add"):
                            a_, b2 = o.extra["a"], o.extra["b"]
                            one = any(x.get("o") == "const" and str(x.get("v")) == "1" for x in (a_, b2))
                            base = any(any(oo.kind == "param" and oo.what == 1 and "id" in oo.path for oo in origins(g, x)) or
                                       any(oo.kind == "call" and oo.extra.sres.endswith("Version::id") for oo in origins(g, x)) for x in (a_, b2))
                            ok = ok or (one and base)
        r.check(ok, "%s|id = self.id + 1" % name, "the constructor does not number the new version current id + 1", g.where())
    r.floor(13)


def c04h(prog, R, rid="C04.h"):
    """Reopen restores every table with the checksum and the global seqno the version file records for it - whatever level
    it sits in (a trivial move takes an ingested table below L0 without rewriting it)."""
    r = R.rule(rid, "every recovered table gets the checksum and global seqno recorded for it", "D")
    f = prog.need("tree::Tree::recover_levels")
    g = prog.need("table::Table::recover")
    names = [g.local_name(i) for i in range(1, g.argc + 1)]
    calls = f.calls_to("table::Table::recover")
    if not calls:
        r.anchor_missing("Table::recover call in recover_levels")
    for c in calls:
        for pname in ("checksum", "global_seqno"):
            if pname not in names:
                r.anchor_missing("parameter %s of Table::recover" % pname)
                continue
            os_ = origins(f, c.args[names.index(pname)])
            ok = bool(os_) and all(o.kind == "call" and o.extra.sres.endswith("HashMap::get") for o in os_)
            r.check(ok, "tree::Tree::recover_levels|Table::recover(%s = the value looked up for this table id)" % pname,
                    "a recovered table's %s does not (only) come from the entry the version file records for it (%s): e.g. an ingested "
                    "table below L0 would come back with seqno offset 0" % (pname, [repr(o) for o in os_]), f.where(c.bb), str(os_))
    # what is looked up was stored from the recovered entry's fields
    ok = False
    detail = ""
    for fam in prog.family(f):
        for c in fam.calls:
            if c.sres.endswith("HashMap::insert") and len(c.args) >= 3:
                for o in origins(fam, c.args[2]):
                    if o.kind == "agg" and isinstance(o.extra, dict) and len(o.extra.get("ops", [])) == 3:
                        flds = []
                        for sub in o.extra["ops"][1:]:
                            flds.append(sorted({x.path[-1] for x in origins(fam, sub) if x.path}))
                        detail = str(flds)
                        if flds == [["checksum"], ["global_seqno"]]:
                            ok = True
    r.check(ok, "tree::Tree::recover_levels|table map entry = (level, table.checksum, table.global_seqno)",
            "the per-table lookup map is not filled from the recovered entry's checksum / global_seqno fields", f.where(), detail)
    r.floor(3)
