"""C13 — a weak delete behaves like a delete for keys written once.

Decided (thin): C13.a–c of DESIGN.md §3. Not decided: the history-level equivalence with `remove`."""
from rules.engine import (hir_walk, hir_expr_str, hir_sites, MaySet, short)
from rules import anchors as A
from rules.stream_rules import StreamModel

EXPLANATION = (
    "Static decision of the weak-delete clauses: (a) ValueType::is_tombstone is true for Tombstone and WeakTombstone and every "
    "read path tests through it (tree::ignore_tombstone_value, the final filter of TreeIter::create_range, "
    "InternalValue::is_tombstone); no function reachable from the read APIs compares value_type with ValueType::Tombstone "
    "directly; (b) in CompactionStream::next the weak-tombstone annihilation is guarded by same user key, head.seqno <= "
    "gc threshold, peeked type == Value, head type == WeakTombstone, and is preceded by drain_key (the value beneath and "
    "everything older go together); (c) a lone weak tombstone is kept unless tombstones are being evicted (discard census, "
    "C01.c). Not decided: equivalence with remove() over histories.")
KINDS = ["H", "W"]
LEVEL_TEXT = ("Static census / guard analysis: read paths cannot distinguish weak from strong tombstones, and the one place "
              "that drops a weak tombstone together with the value beneath it is guarded exactly as specified. Equivalence "
              "with remove() over all histories is not decided.")


def run(prog, R, tier="quick", only_rule=None):
    c13a(prog, R)
    c13b(prog, R)
    from rules.props import c01
    c01.c01c(prog, R, rid="C13.c")
    c13d(prog, R)
    # point reads must find the weak tombstone: every distinct key of a table is in its filter, whatever its value type
    c01.c01e(prog, R, rid="C13.e")


def c13a(prog, R):
    r = R.rule("C13.a", "weak tombstones hide like tombstones on every read path", "W")
    h = prog.hir.get("value_type::ValueType::is_tombstone")
    s = hir_expr_str(h["body"]) if h else ""
    r.check(s == "((self == value_type::ValueType::Tombstone) || (self == value_type::ValueType::WeakTombstone))",
            "ValueType::is_tombstone|Tombstone || WeakTombstone", "is_tombstone no longer covers both tombstone kinds: %s" % s, "", s)
    h = prog.hir.get("tree::ignore_tombstone_value")
    ok = False
    if h:
        ifs = [n for n in hir_walk(h["body"]) if n.get("k") == "if"]
        ok = bool(ifs) and hir_expr_str(ifs[0]["c"]) == "item.is_tombstone()"
    r.check(ok, "tree::ignore_tombstone_value|tests item.is_tombstone()", "point reads no longer hide through is_tombstone", "")
    for nm in ("value::InternalValue::is_tombstone", "key::InternalKey::is_tombstone"):
        hh = prog.hir.get(nm)
        if hh:
            s = hir_expr_str(hh["body"])
            r.check(s in ("self.key.is_tombstone()", "self.value_type.is_tombstone()", "self.key.value_type.is_tombstone()"),
                    "%s|delegates to ValueType::is_tombstone" % nm, "changed: %s" % s, "", s)
    # census: direct comparisons with ValueType::Tombstone outside the compaction stream / writer counters
    allowed = ("compaction::stream::", "table::writer::", "value_type::ValueType::is_tombstone", "compaction::filter::")
    offenders = []
    n = 0
    for path, hh in sorted(prog.hir.items()):
        for x in hir_walk(hh["body"]):
            if x.get("k") == "bin" and x["op"] in ("==", "!="):
                t = hir_expr_str(x)
                if "ValueType::Tombstone" in t and "WeakTombstone" not in t.replace("ValueType::Tombstone", "", 1) or t.endswith("ValueType::Tombstone)"):
                    n += 1
                    p = path.lstrip("<")
                    if not any(a in path for a in allowed):
                        offenders.append((path, t))
    r.check(not offenders, "census|no direct `== ValueType::Tombstone` outside the compaction stream / writer counters",
            "value_type is compared with the strong tombstone only (weak tombstones would not hide): %s" % offenders[:3], "",
            "%d direct comparison(s), all in tabled places" % n)
    # read closure: functions reachable from the read APIs contain none
    from rules.props.c20 import READ_APIS
    roots = [A.tm(ty, m) for ty in (A.TREE, A.BLOBTREE) for m in READ_APIS if A.tm(ty, m) in prog.fns]
    roots += ["abstract_tree::AbstractTree::" + m for m in READ_APIS if ("abstract_tree::AbstractTree::" + m) in prog.fns]
    for ti in ("std::iter::Iterator::next", "std::iter::DoubleEndedIterator::next_back", "iter_guard::IterGuard::into_inner"):
        roots += [p for p in prog.impl_of_trait_item.get(ti, []) if p in prog.fns and not p.startswith("<compaction::")]
    reach, _ = prog.reachable_fns(roots)
    bad = [p for (p, _t) in offenders if prog.fns.get(p) and prog.fns[p].root in reach]
    r.check(not bad and len(roots) >= 12, "read closure|%d functions reachable from read APIs, none compares with Tombstone directly" % len(reach),
            "a read path compares with ValueType::Tombstone directly: %s" % bad, "")
    r.floor(5)


def c13b(prog, R):
    r = R.rule("C13.b", "weak-tombstone annihilation only when it is safe", "K")
    sm = StreamModel(prog)
    ann = [s for s in sm.discards() if sm.classify_discard(s) == "weak-annihilation"]
    if len(ann) != 1:
        r.anchor_missing("weak-annihilation discard in CompactionStream::next (found %d)" % len(ann))
        return
    s = ann[0]
    g = sm.guards(s)
    r.check(sm.SAME_KEY in g and sm.BELOW_WATERMARK in g, "%s|annihilation under same key & head.seqno <= gc threshold" % sm.path,
            "a weak tombstone and the value beneath can be dropped for a different key or above the watermark", "", " & ".join(g)[-200:])
    d = sm.let_def("drop_weak_tombstone")
    want = "((PEEKED.key.value_type == ValueType::Value) && (HEAD.key.value_type == ValueType::WeakTombstone))"
    r.check(d == want, "%s|drop_weak_tombstone := peeked is Value && head is WeakTombstone" % sm.path,
            "annihilation condition changed to `%s`" % d, "", str(d))
    # only the pair goes: the value beneath is consumed (one `self.inner.next()`), reported to the GC callback, and the
    # older tail is NOT drained on this path (an older weak tombstone may still shadow a value in a lower level - F9)
    takes = 0
    for b in s.before:
        from rules.stream_rules import unconditional_nodes
        if b.get("k") != "let":
            continue
        for m in unconditional_nodes(b):
            if m.get("k") == "mcall" and m.get("m") == "next" and hir_expr_str(m["r"]) == "self.inner":
                takes += 1
    # one take is the head item itself, the second one is the value beneath the weak tombstone
    took = takes >= 2 or sm.before_has_call(s, "drain_key")
    r.check(took, "%s|the value beneath is consumed together with the weak tombstone" % sm.path,
            "the weak tombstone is dropped without removing the value beneath it (the value would resurface)", "")
    r.check(not sm.before_has_call(s, "drain_key"), "%s|the older tail of the key is not drained by the annihilation" % sm.path,
            "weak-tombstone annihilation drains every older version of the key as well: an older weak tombstone that still shadows "
            "a value in a lower level disappears and that value comes back (remove() would keep the key deleted)", "")
    r.check(sm.before_has_call(s, "on_dropped", "&dropped"), "%s|the consumed value is reported to the GC callback" % sm.path,
            "the value dropped by the annihilation is not reported to the drop callback", "")
    r.floor(5)


def c13d(prog, R, rid="C13.d"):
    """A weak tombstone leaves the data in exactly two ways: together with the value it deletes (annihilation, C13.b), or at the
    last level (tombstone eviction, C13.c).  Version GC - draining the versions beneath a newer one that every snapshot above
    the watermark sees - is not a third way: the newer version can itself be cancelled by a later weak delete, and then nothing
    would shadow the value the older weak tombstone was covering in a lower level (finding F13)."""
    r = R.rule(rid, "version GC never drains a weak tombstone unless tombstones are being evicted", "K,B")
    name = "compaction::stream::CompactionStream::<'a, I, F>::drain_key"
    h = prog.hir.get(name)
    if h is None:
        cands = [k for k in prog.hir if k.startswith("compaction::stream::CompactionStream") and k.endswith("::drain_key")]
        h = prog.hir.get(cands[0]) if cands else None
    if h is None:
        r.anchor_missing("CompactionStream::drain_key")
        return
    lets = {n["pat"]["n"]: hir_expr_str(n["init"], 400) for n in hir_walk(h["body"]) if n.get("k") == "let" and n["pat"].get("k") == "bind" and "init" in n}
    # the predicate of the draining next_if: which entries count as expired
    preds = [v for k_, v in lets.items() if "user_key == key" in v]
    ok = False
    detail = "; ".join(preds)
    for ptxt in preds:
        txt = ptxt
        for k_, v in lets.items():
            txt = txt.replace(k_, "(" + v + ")") if k_ in txt and k_ not in ("kv",) and v != ptxt else txt
        spares_weak = "WeakTombstone" in txt and "!(" in txt
        only_when_kept = "evict_tombstones" in txt
        ok = ok or (spares_weak and only_when_kept)
    r.check(ok, "CompactionStream::drain_key|stops in front of a weak tombstone unless evict_tombstones",
            "version GC drains every older version of the key including weak tombstones (%s): after `insert, weak delete, insert` "
            "compacted above a value that sits in a lower level, a second weak delete cancels the newer insert and the original value "
            "comes back" % (detail or "no key comparison found"), "", detail)
    r.floor(1)
