"""C06 — background flushes and compactions never change what readers see or lose a write.

Decided: lock-context / commit-on-current / protocol clauses C06.a–g of DESIGN.md §3. Not decided: linearizability of
actual executions; the std / crossbeam primitives."""
from rules.engine import (LockFacts, MaySet, MustSet, must_pass, success_ordered, origins, deep_origins, short,
                          control_deps_transitive, switch_condition, origin_callees, returned_payload_origins)
from rules import anchors as A

EXPLANATION = (
    "Static lock-context and commit-protocol analysis over MIR for every schedule at once (a 'held on every CFG path' "
    "fact holds under every interleaving): (a) Memtable::insert in Tree::append_entry executes while a read guard on the "
    "version history obtained in the same body is held; (b) rotate/clear read latest_version and install the replacement "
    "under one write-guard acquisition; (c) every transition closure handed to upgrade_version* derives the version it "
    "returns, and every Version::with_* receiver, from its parameter (the version current at commit), never from a "
    "capture; (d) flush/registration protocol: register_tables takes compaction-state then version-history(write), tests "
    "the sealed memtables before upgrading, and flush/ingestion hold the flush lock across rotate..register; (e) hidden-set "
    "protocol: hide only under the compaction-state lock after should_decline_compaction, move/drop evaluate it under both "
    "locks, every strategy's choose consults the hidden set; (f) major_compact/drop_range hold the major-compaction write "
    "lock, compact the read lock, across inner_compact; (g) the inter-procedural lock-order graph over the four lock "
    "classes (identified by type) is acyclic and respects major/flush -> compaction-state -> version-history, and no "
    "flush_to_tables / merge loop runs while version-history is held. Not decided: linearizability of executions.")
KINDS = ["L", "D", "O"]
LEVEL_TEXT = ("Static lock dataflow (guards tracked by type through moves, expect(), by-value transfer and drops) and def-use "
              "analysis of every version-transition closure. A must-held fact on the CFG holds under every thread schedule, "
              "which single-threaded tests cannot reach; what is decided are the locking/commit protocol clauses, not "
              "linearizability of actual runs.")

CLASSES = {
    ("rw", "version::super_version::SuperVersions"): "VH",
    ("mutex", "compaction::state::CompactionState"): "CS",
    ("rw", "()"): "MC",
    ("mutex", "()"): "FL",
}
RANK = {"MC": 0, "FL": 0, "CS": 1, "VH": 2}
NAMES = {"VH": "version-history", "CS": "compaction-state", "MC": "major-compaction", "FL": "flush-lock"}

INSERT = "memtable::Memtable::insert"
STRATEGY_EXEMPT = {
    "<compaction::pulldown::Strategy as compaction::CompactionStrategy>::choose":
        "test-only strategy; relies on the worker's should_decline_compaction fail-safe",
}


def run(prog, R, tier="quick", only_rule=None):
    L = LockFacts(prog, CLASSES)
    c06a(prog, R, L)
    c06b(prog, R, L)
    c06c(prog, R)
    c06d(prog, R, L)
    c06e(prog, R, L)
    c06f(prog, R, L)
    c06g(prog, R, L)
    c06h(prog, R, L)
    c06j(prog, R)
    c06l(prog, R)
    c06n(prog, R, L)
    # a blob file is rewritten only if *no* other table - hidden by a parallel compaction or not - points into it
    from rules.props import c08
    c08.c08f(prog, R, rid="C06.o")
    c06p(prog, R)
    # a reader at a published snapshot keeps finding its version: the version GC bound (shared with C20.d)
    from rules.props import c20
    c20.c20d(prog, R, rid="C06.k")
    # "the final tree reopens to the flushed state": nothing becomes visible before it is persisted
    from rules.props import c02
    c02.c02a(prog, R, rid="C06.m")


def held_classes(L, f, bb, must=True):
    return {c for (c, _m) in L.held_at(f, bb, must)}


def c06a(prog, R, L):
    r = R.rule("C06.a", "a write lands in the memtable that is active under the same lock acquisition", "L")
    f = prog.need("tree::Tree::append_entry")
    ins = f.calls_to(INSERT)
    if not ins:
        r.anchor_missing("Memtable::insert in Tree::append_entry")
    acq = [(c, cls, m) for (c, cls, m) in L.acquisitions(f) if cls == "VH"]
    for c in ins:
        held = L.held_at(f, c.bb, must=True)
        ok = ("VH", "read") in held or ("VH", "write") in held
        r.check(ok and bool(acq), "%s|Memtable::insert under the version-history guard" % f.path,
                "the memtable insert runs after the version-history guard was released: a concurrent rotate+flush can seal "
                "and flush the memtable before the write lands, losing an acknowledged write", f.where(c.bb),
                "held=%s" % sorted(held))
        # the memtable receiver derives from the guarded latest_version()
        recv = origin_callees(f, c.args[0])
        r.check(A.LATEST_VERSION in recv, "%s|insert receiver = latest_version().active_memtable" % f.path,
                "the memtable written to is not the active memtable read under the guard", f.where(c.bb), str(sorted(recv))[:200])
    # every other caller of Memtable::insert outside tests: census
    others = [c for c in prog.all_calls(INSERT) if c.fn.path != f.path]
    for c in others:
        r.ok("%s|other Memtable::insert caller" % c.fn.path, "not a tree write path (private memtable)", nontrivial=False)
    r.floor(2)


def c06b(prog, R, L):
    r = R.rule("C06.b", "seal / rotate / clear read and replace the latest version under one write acquisition", "L")
    targets = [A.tm(A.TREE, "rotate_memtable"), A.tm(A.TREE, "clear_active_memtable"), A.TREE_CLEAR, A.BLOB_CLEAR]
    for name in targets:
        f = prog.need(name)
        reads = f.calls_to(A.LATEST_VERSION)
        writes = f.calls_to(A.REPLACE_LATEST, A.UPGRADE, A.UPGRADE_SEQNO)
        acqs = [c for c in f.calls if "VH" in L.call_may_acquire(c)
                and c.sres not in (A.UPGRADE, A.UPGRADE_SEQNO, A.REPLACE_LATEST, A.LATEST_VERSION)]
        key = "%s|latest_version..replace under one write guard" % name
        if not writes:
            r.anchor_missing("replace/upgrade call in " + name)
            continue
        ok = True
        why = []
        for c in reads + writes:
            if ("VH", "write") not in L.held_at(f, c.bb, must=True):
                ok = False
                why.append("%s not under the write guard" % short(c.sres))
        if len(acqs) != 1:
            ok = False
            why.append("%d acquisitions of the version-history lock (expected exactly one)" % len(acqs))
        r.check(ok, key, "the version is read and replaced under different (or no) lock acquisitions: %s — a concurrent "
                         "version change in between is overwritten" % "; ".join(why), f.where(), "; ".join(why))
    r.floor(4)


def c06c(prog, R, rid="C06.c"):
    r = R.rule(rid, "version transitions are applied to the version current at commit (closure parameter)", "D")
    n = 0
    for uc in prog.all_calls(A.UPGRADE, A.UPGRADE_SEQNO):
        f = uc.fn
        if f.path == A.UPGRADE:
            continue
        cbs = [prog.fns[c] for c in prog.callbacks(uc) if c in prog.fns]
        if not cbs:
            r.bad("%s|transition closure not found" % f.path, "cannot resolve the closure passed to upgrade_version", f.where(uc.bb))
            continue
        for g in cbs:
            n += 1
            key = "%s|closure result derives from its parameter" % g.path
            # (i) the returned SuperVersion
            outs = returned_payload_origins(g)
            base_ok = any(o.kind == "param" and o.what == 2 for o in outs) and not any(o.kind == "upvar" and
                                                                                        not o.path for o in outs)
            # (ii) receivers of Version::with_* / Version::id
            recv_bad = []
            for c in g.calls:
                if c.sres and c.sres.startswith("version::Version::") and c.args and (c.sres.split("::")[-1].startswith("with_")
                                                                                       or c.sres.endswith("::id")):
                    ros = origins(g, c.args[0])
                    if any(o.kind == "upvar" for o in ros) or not any(o.kind == "param" and o.what == 2 for o in ros):
                        recv_bad.append((short(c.sres), ros))
            r.check(base_ok and not recv_bad, key,
                    "the transition is applied to a captured (stale) version instead of the closure's parameter: every "
                    "version change committed in between (e.g. a concurrent flush) is silently dropped",
                    g.where(), "result origins=%s bad receivers=%s" % (outs[:4], recv_bad[:3]))
    r.floor(9)


def c06d(prog, R, L, rid="C06.d"):
    r = R.rule(rid, "flush / registration protocol", "L,O")
    f = prog.need(A.TREE_REGISTER_TABLES)
    acq = L.acquisitions(f)
    order = [cls for (_c, cls, _m) in sorted(acq, key=lambda x: x[0].bb)]
    cs = [c for (c, cls, _m) in acq if cls == "CS"]
    vh = [c for (c, cls, m) in acq if cls == "VH" and m == "write"]
    r.check(bool(cs) and bool(vh) and all(f.dominates(a.bb, b.bb) for a in cs for b in vh),
            "%s|compaction-state lock before version-history write lock" % f.path,
            "register_tables no longer takes the compaction-state lock before the version-history write lock",
            f.where(), str(order))
    up = f.calls_to(A.UPGRADE, A.UPGRADE_SEQNO)
    for u in up:
        held = L.held_at(f, u.bb, must=True)
        r.check(("VH", "write") in held and ("CS", "lock") in held, "%s|upgrade under both locks" % f.path,
                "tables are registered without holding compaction-state + version-history(write)", f.where(u.bb), str(sorted(held)))
        # the sealed-memtable test dominates the upgrade: a call to SealedMemtables::contains (in a closure of an `any`)
        fam = prog.family(f)
        contains = [c for g in fam for c in g.calls_to("tree::sealed::SealedMemtables::contains")]
        anyc = [c for c in f.calls if any(x.fn.path in prog.callbacks(c) for x in contains)]
        ok = bool(anyc) and all(f.dominates(a.bb, u.bb) for a in anyc)
        r.check(ok, "%s|sealed-memtable check dominates the upgrade" % f.path,
                "tables can be registered although their sealed memtables are gone (raced flush would double-register)",
                f.where(u.bb))
        # its failing edge returns without upgrading: the upgrade is control dependent on the check's result
        if anyc:
            deps = control_deps_transitive(f, u.bb)
            dep_ok = False
            for (a, s) in deps:
                for o in switch_condition(f, a):
                    if o.kind == "call" and o.extra.bb == anyc[0].bb:
                        dep_ok = True
            r.check(dep_ok, "%s|upgrade control-dependent on the sealed-memtable check" % f.path,
                    "the result of the sealed-memtable check does not gate the upgrade", f.where(u.bb))
    # who may change the set of sealed memtables, and how (one line of reason per writer)
    SEALED_WRITERS = {
        A.tm(A.TREE, "rotate_memtable"): ("tree::sealed::SealedMemtables::add", "seals the active memtable (adds one)"),
        A.tm(A.TREE, "register_tables") + "::{closure#1}": ("tree::sealed::SealedMemtables::remove",
                                                            "releases exactly the flushed memtables, id by id"),
        A.TREE_CLEAR + "::{closure#0}": ("<std::sync::Arc<T> as std::default::Default>::default", "clear() empties the tree"),
        A.BLOB_CLEAR + "::{closure#0}": ("<std::sync::Arc<T> as std::default::Default>::default", "clear() empties the tree"),
        A.tm(A.TREE, "clear_active_memtable"): ("<tree::sealed::SealedMemtables as std::default::Default>::default",
                                                "recovery-only reset, no snapshots exist yet"),
    }
    seen_w = 0
    for p, g in sorted(prog.fns.items()):
        if g.derived:
            continue
        for i, b in enumerate(g.blocks):
            if b.get("cleanup"):
                continue
            for st in b["stmts"]:
                if st["k"] == "assign" and "p" in st["to"] and st["to"]["p"][-1].startswith(".sealed_memtables:version::super_version::SuperVersion"):
                    seen_w += 1
                    src = origin_callees(g, st["rv"].get("op")) if st["rv"].get("op") else set()
                    want = SEALED_WRITERS.get(p)
                    ok = want is not None and want[0] in src
                    r.check(ok, "%s|writes SuperVersion.sealed_memtables via %s" % (p, short(want[0]) if want else "?"),
                            "the set of sealed memtables is changed in an unexpected way (%s): memtables that were not flushed "
                            "could be released, losing acknowledged writes" % sorted(short(x) for x in src), g.where(i),
                            want[1] if want else "")
    if seen_w < 5:
        r.anchor_missing("writers of SuperVersion.sealed_memtables (found %d)" % seen_w)
    # the released ids are the ones the flush was given: the id argument of remove() comes from the closure's capture of
    # the `sealed_memtables_to_delete` parameter
    reg = prog.fn(A.tm(A.TREE, "register_tables") + "::{closure#1}")
    if reg is not None:
        from rules.engine import deep_origins
        okid = False
        for c in reg.calls_to("tree::sealed::SealedMemtables::remove"):
            for (gg, o) in deep_origins(prog, reg, c.args[1]):
                if gg.path == f.path and o.kind == "param" and f.local_name(o.what) == "sealed_memtables_to_delete":
                    okid = True
            # through the for-loop iterator: the id is the item of an iterator over the captured slice
            if not okid:
                names = origin_callees(reg, c.args[1])
                if any(n.endswith("Iterator>::next") for n in names):
                    for cc in reg.calls:
                        if cc.sres and cc.sres.endswith("into_iter"):
                            for (gg, o) in deep_origins(prog, reg, cc.args[0]):
                                if gg.path == f.path and o.kind == "param" and f.local_name(o.what) == "sealed_memtables_to_delete":
                                    okid = True
        r.check(okid, "%s|removed ids come from sealed_memtables_to_delete" % reg.path,
                "the memtables released by a flush are not the ones it was told it flushed", reg.where())
    else:
        r.anchor_missing("register_tables transition closure")
    # flush is callable only with the flush-lock guard
    fl = prog.need(A.ABSTRACT_FLUSH)
    tys = [fl.local_ty(i) for i in range(1, fl.argc + 1)]
    r.check(any("MutexGuard<'_, ()>" in t for t in tys), "%s|requires &MutexGuard<()>" % fl.path,
            "flush() no longer demands the flush-lock guard in its signature", fl.where(), str(tys))
    # callers that take the flush lock hold it across rotate .. flush / upgrade
    for name in ("abstract_tree::AbstractTree::flush_active_memtable", A.INGEST_FINISH, A.BLOB_INGEST_FINISH):
        g = prog.need(name)
        steps = [c for c in g.calls if c.sres and (c.sres.endswith("::rotate_memtable") or c.sres.endswith("AbstractTree::flush")
                                                    or c.sres in (A.UPGRADE, A.UPGRADE_SEQNO))]
        if not steps:
            r.anchor_missing("rotate/flush/upgrade steps in " + name)
            continue
        bad = [short(c.sres) for c in steps if ("FL", "lock") not in L.held_at(g, c.bb, must=True)]
        r.check(not bad, "%s|flush lock held across rotate..register" % name,
                "the flush lock is not held at: %s (a concurrent flush could interleave)" % ", ".join(bad), g.where(),
                "%d step(s)" % len(steps))
    r.floor(14)


def c06e(prog, R, L):
    r = R.rule("C06.e", "hidden-set protocol", "L,P,W")
    DECLINE = "compaction::state::hidden_set::HiddenSet::should_decline_compaction"
    hides = prog.all_calls(A.HIDE)
    if not hides:
        r.anchor_missing("HiddenSet::hide")
    for h in hides:
        f = h.fn
        held = held_classes(L, f, h.bb)
        r.check("CS" in held, "%s|hide under the compaction-state lock" % f.path,
                "tables are hidden without holding the compaction-state lock", f.where(h.bb), str(sorted(held)))
        dec = f.calls_to(DECLINE)
        ok = bool(dec) and any(f.dominates(d.bb, h.bb) for d in dec)
        r.check(ok, "%s|should_decline_compaction dominates hide" % f.path,
                "tables are hidden without checking that no other compaction already holds them", f.where(h.bb))
        # same acquisition: the CS guard held at the decline check is still held at hide
        if dec:
            same = L.holders_at(f, dec[0].bb) & L.holders_at(f, h.bb)
            gl = L.guard_locals(f)
            # the check may borrow the guard; the hide happens after moves of the same guard chain: accept if CS is
            # must-held at every block on the paths between the two sites
            between = f.reach_after(dec[0].bb, stop_at=[h.bb])
            gap = [b for b in between if b != h.bb and f.dominates(dec[0].bb, b) and h.bb in f.reach([b])
                   and "CS" not in held_classes(L, f, b) and f.blocks[b]["term"]["k"] != "return"]
            r.check(not gap, "%s|no release of the compaction-state lock between the check and hide" % f.path,
                    "the compaction-state lock is released between should_decline_compaction and hide (check-then-act race)",
                    f.where(gap[0]) if gap else "")
    for name in (A.MOVE_TABLES, A.DROP_TABLES):
        f = prog.need(name)
        dec = f.calls_to(DECLINE)
        ups = f.calls_to(A.UPGRADE, A.UPGRADE_SEQNO)
        ok = bool(dec) and bool(ups)
        for d in dec:
            held = held_classes(L, f, d.bb)
            ok = ok and "CS" in held and "VH" in held
        for u in ups:
            ok = ok and any(f.dominates(d.bb, u.bb) for d in dec)
        r.check(ok, "%s|decline check under both locks dominates the upgrade" % name,
                "move/drop no longer re-checks the hidden set under compaction-state + version-history before upgrading",
                f.where())
    # strategies consult the hidden set
    consult = ("compaction::state::hidden_set::HiddenSet::is_hidden", "compaction::state::hidden_set::HiddenSet::is_blocked",
               "version::Version::level_is_busy", DECLINE)
    cons = MaySet(prog, list(consult), "consults hidden set")
    impls = prog.impl_of_trait_item.get("compaction::CompactionStrategy::choose", [])
    n = 0
    for p in sorted(impls):
        g = prog.fns.get(p)
        if g is None:
            continue
        n += 1
        fam = prog.family(g)
        # does it construct a Merge/Move/Drop choice at all?
        makes = False
        for x in fam:
            for b in x.blocks:
                for st in b["stmts"]:
                    if st["k"] == "assign" and st["rv"]["k"] == "agg" and st["rv"].get("adt") == "compaction::Choice" \
                            and st["rv"].get("variant") in ("Merge", "Move", "Drop"):
                        makes = True
        callees_make = any(c.local and c.dest and "compaction::Choice" in x.local_ty(c.dest["l"]) for x in fam for c in x.calls)
        ok = any(cons.call_in(c) for x in fam for c in x.calls)
        if p in STRATEGY_EXEMPT:
            r.ok("%s|exempt" % p, STRATEGY_EXEMPT[p])
            continue
        if not makes and not callees_make:
            r.ok("%s|never chooses Merge/Move/Drop itself" % p, "", nontrivial=False)
            continue
        r.check(ok, "%s|consults the hidden set" % p,
                "a compaction strategy picks tables without looking at the hidden set (tables already being compacted)", g.where())
    if n < 5:
        r.anchor_missing("CompactionStrategy::choose impls (found %d)" % n)
    r.floor(9)


def c06f(prog, R, L, rid="C06.f"):
    r = R.rule(rid, "major compaction and drop_range are exclusive; ordinary compaction shares", "L")
    for name, mode in ((A.tm(A.TREE, "major_compact"), "write"), (A.tm(A.TREE, "drop_range"), "write"),
                       (A.tm(A.TREE, "compact"), "read")):
        f = prog.need(name)
        ic = f.calls_to("tree::Tree::inner_compact")
        if not ic:
            r.anchor_missing("inner_compact call in " + name)
            continue
        for c in ic:
            held = L.held_at(f, c.bb, must=True)
            r.check(("MC", mode) in held, "%s|inner_compact under major-compaction %s lock" % (name, mode),
                    "the compaction runs without the major-compaction %s lock (exclusivity of major/drop_range lost)" % mode,
                    f.where(c.bb), str(sorted(held)))
    r.floor(3)


def c06g(prog, R, L):
    r = R.rule("C06.g", "lock order is acyclic and long I/O runs outside the version-history lock", "L")
    edges = {}
    for p, f in sorted(prog.fns.items()):
        if f.derived:
            continue
        gl = None
        for c in f.calls:
            acq = L.call_may_acquire(c)
            if not acq:
                continue
            holders = L.holders_at(f, c.bb, must=False)
            if not holders:
                continue
            if gl is None:
                gl = L.guard_locals(f)
            moved = {a["l"] for a in c.args if a.get("o") == "move" and "pl" not in a}
            for h in holders - moved:
                hc = gl[h][0]
                for a in acq:
                    if a != hc:
                        edges.setdefault((hc, a), []).append("%s @ %s" % (p, short(c.sres)))
    for (a, b), where in sorted(edges.items()):
        ok = RANK[a] < RANK[b]
        r.check(ok, "lock-order|%s -> %s" % (NAMES[a], NAMES[b]),
                "lock acquired against the established order (%s while holding %s): deadlock with the paths that take them "
                "the other way round" % (NAMES[b], NAMES[a]), "; ".join(where[:4]), "%d site(s): %s" % (len(where), "; ".join(where[:3])))
    # cycle check (beyond the rank table)
    adj = {}
    for (a, b) in edges:
        adj.setdefault(a, set()).add(b)

    def cyc(n, stack, seen):
        if n in stack:
            return True
        if n in seen:
            return False
        seen.add(n)
        return any(cyc(m, stack | {n}, seen) for m in adj.get(n, ()))
    r.check(not any(cyc(n, frozenset(), set()) for n in adj), "lock-order|acyclic", "the lock-order graph has a cycle", "", str(sorted(edges)))
    if len(edges) < 4:
        r.anchor_missing("lock-order edges (found %d)" % len(edges))
    # long I/O outside VH
    longio = MaySet(prog, ["abstract_tree::AbstractTree::flush_to_tables", A.FLAVOUR_WRITE, A.TABLE_MULTI_FINISH,
                           A.BLOB_MULTI_FINISH, "table::multi_writer::MultiWriter::write"], "long I/O")
    bad = []
    n_sites = 0
    for p, f in sorted(prog.fns.items()):
        if f.derived or p in (A.STD_FINISH, A.RELOC_FINISH):
            # the finishers are entered with the write guard by design (they only finalise already written files)
            continue
        for c in f.calls:
            if longio.call_in(c):
                n_sites += 1
                held = {x for (x, _m) in L.held_at(f, c.bb, must=False)}
                # by-value transfer does not count as holding
                if "VH" in held:
                    holders = L.holders_at(f, c.bb, must=False)
                    gl = L.guard_locals(f)
                    moved = {a["l"] for a in c.args if a.get("o") == "move" and "pl" not in a}
                    if any(gl[h][0] == "VH" for h in holders - moved):
                        bad.append((f, c))
    allowed = {(A.MERGE_TABLES, A.FLAVOUR_FINISH), (A.MERGE_TABLES, "std::option::Option::map")}
    for (f, c) in bad:
        if (f.path, c.sres) in allowed or (f.path, c.path) in allowed:
            r.ok("%s|%s under the version-history lock (commit step)" % (f.path, short(c.sres)),
                 "finalising already written output at commit time is part of the protocol")
            continue
        r.bad("%s|%s while the version-history lock is held" % (f.path, short(c.sres)),
              "table/blob writing runs while the version-history lock is held: readers and writers stall for the whole "
              "flush/merge", f.where(c.bb))
    r.ok("long-io census|%d call site(s) may reach table writing" % (n_sites // 5 * 5), "", nontrivial=False)
    r.floor(9)


READER_METHODS = ("get", "contains_key", "size_of", "range", "prefix", "iter", "len", "is_empty", "first_key_value",
                  "last_key_value", "multi_get", "get_internal_entry")


def c06h(prog, R, L, rid="C06.h", methods=None, share_pin=True):
    """A read operation takes the version-history lock once: everything it looks at (memtables, tables, the blob files its
    pointers resolve against) comes from that one SuperVersion.  A second acquisition on the same path can observe a
    later version - a compaction that committed in between - and mixes two views."""
    r = R.rule(rid, "a read operation takes one snapshot of the version history (no second acquisition on a path)", "L")
    roots = []
    for p in prog.fns:
        if p.startswith(("abstract_tree::AbstractTree::", "<tree::Tree as abstract_tree::AbstractTree>::",
                         "<blob_tree::BlobTree as abstract_tree::AbstractTree>::", "<any_tree::AnyTree as abstract_tree::AbstractTree>::")) \
                and p.split("::")[-1] in (methods or READER_METHODS):
            roots.append(p)
    if methods is None and len(roots) < 15:
        r.anchor_missing("reader methods of AbstractTree (found %d, confirmed 23)" % len(roots))
        return
    reach, _ = prog.reachable_fns(roots)
    n = 0
    for p in sorted(reach):
        f = prog.fns.get(p)
        if f is None:
            continue
        sites = [c for c in f.calls if "VH" in L.call_may_acquire(c)]
        if not sites:
            continue
        n += 1
        twice = [(a, b) for a in sites for b in sites if a is not b and b.bb in f.reach_after(a.bb)]
        r.check(not twice, "%s|at most one version-history acquisition per path" % p,
                "a read takes the version-history lock twice on one path (%s then %s): the second view can be newer than the "
                "first, e.g. a value pointer read from one version is resolved against another" %
                ((short(twice[0][0].sres), short(twice[0][1].sres)) if twice else ("", "")), f.where(twice[0][1].bb if twice else None),
                "%d site(s)" % len(sites))
    r.floor(28 if methods is None else 2)
    if not share_pin:
        return
    # the blob read path resolves against the SuperVersion it read (shared with C02.d / C08.b)
    from rules.props import c02
    c02.c02d(prog, R, rid="C06.i")


def c06j(prog, R, rid="C06.j"):
    """Sealed memtables are removed from the version by id when their flush is registered.  Ids must therefore be unique
    among the memtables alive at one time: the initial active memtable is created with a constant id by SuperVersions::new,
    every other one takes memtable_id_counter.next(), and the counter starts above that constant in every constructor of
    TreeInner (a reopened tree that restarts the counter at the constant gives the first rotated-in memtable the id of the
    one being flushed: registering the flush drops both, and the unflushed one's writes are lost)."""
    r = R.rule(rid, "memtable ids are unique: one constant initial id, every other id from a counter that starts above it", "D,G")
    NEW = "memtable::Memtable::new"
    consts = {}
    n = 0
    for c in prog.all_calls(NEW):
        n += 1
        os_ = origins(c.fn, c.args[0])
        kinds = set()
        for o in os_:
            if o.kind == "const":
                kinds.add("const")
                consts.setdefault(c.fn.path, set()).add(str(o.what))
            elif o.kind == "call" and o.extra.sres.endswith("SequenceNumberCounter::next") and \
                    any("memtable_id_counter" in x.path for x in deep_origins_paths(prog, c.fn, o.extra.args[0])):
                kinds.add("counter")
            elif o.kind == "param":
                kinds.add("param")     # test / bench helpers hand an id through
            else:
                kinds.add("other:" + repr(o))
        where_ok = kinds <= {"counter"} or (kinds == {"const"} and c.fn.path.startswith("version::super_version::SuperVersions::new")) \
            or kinds == {"param"}
        r.check(where_ok, "%s|Memtable::new(id from memtable_id_counter.next())" % prog.fns.get(c.fn.root, c.fn).path,
                "a memtable is created with an id that is neither the initial constant nor taken from the memtable id counter: %s"
                % sorted(kinds), c.fn.where(c.bb), str(sorted(kinds)))
    if n < 4:
        r.anchor_missing("Memtable::new call sites (found %d)" % n)
    init = consts.get("version::super_version::SuperVersions::new", set())
    r.check(len(init) == 1, "SuperVersions::new|the initial active memtable has one constant id", "initial memtable id constants: %s" % sorted(init), "", str(sorted(init)))
    k0 = int(next(iter(init))) if len(init) == 1 and next(iter(init)).isdigit() else None
    m = 0
    for p, f in sorted(prog.fns.items()):
        for b in f.blocks:
            for st in b["stmts"]:
                if st["k"] == "assign" and st["rv"]["k"] == "agg" and st["rv"].get("adt") == "tree::inner::TreeInner":
                    m += 1
                    idx = st["rv"]["fields"].index("memtable_id_counter")
                    start = None
                    for o in origins(f, st["rv"]["ops"][idx]):
                        if o.kind == "call" and o.extra.sres.endswith("SequenceNumberCounter::new"):
                            for oo in origins(f, o.extra.args[0]):
                                if oo.kind == "const" and str(oo.what).isdigit():
                                    start = int(str(oo.what))
                    r.check(k0 is not None and start is not None and start > k0, "%s|memtable_id_counter starts above the initial memtable's id" % p,
                            "the memtable id counter starts at %s although the initial active memtable already has id %s: after this "
                            "constructor the first rotated-in memtable shares an id with a memtable that may still be in flight" % (start, k0),
                            f.where(), "start=%s initial=%s" % (start, k0))
    if m < 2:
        r.anchor_missing("TreeInner construction sites (found %d)" % m)
    r.floor(8)


def deep_origins_paths(prog, f, op):
    return [o for (_g, o) in deep_origins(prog, f, op)]


def c06l(prog, R, rid="C06.l"):
    """L0 runs overlap and are ordered by age.  A leveled payload that takes tables out of L0 takes the whole level: a payload
    that leaves out the L0 tables another compaction currently hides moves *newer* data below *older* data that is still on its
    way down (the worker's fail-safe only inspects the tables a payload names).  So the L0 part of a payload is
    `list_ids()` of the level, unfiltered; a busy L0 is handled by declining, not by sub-setting."""
    r = R.rule(rid, "a leveled compaction takes L0 as a whole, never the not-hidden subset", "D")
    name = "<compaction::leveled::Strategy as compaction::CompactionStrategy>::choose"
    f = prog.fn(name)
    if f is None:
        r.anchor_missing(name)
        return
    SUBSET = ("Iterator::filter", "Iterator::filter_map", "Iterator::skip", "Iterator::take", "Iterator::skip_while",
              "Iterator::take_while", "Vec::retain", "HashSet::retain", "Iterator::step_by")
    n = 0
    for i, b in enumerate(f.blocks):
        for st in b["stmts"]:
            if not (st["k"] == "assign" and st["rv"]["k"] == "agg" and st["rv"].get("adt") == "compaction::Input"):
                continue
            idx = st["rv"]["fields"].index("table_ids")
            calls = _chain_calls(prog, f, st["rv"]["ops"][idx])
            l0 = False
            for c in calls:
                if c.sres == "version::Version::l0":
                    l0 = True
                if c.sres == "version::Version::level" and len(c.args) > 1 and c.args[1].get("o") == "const" and str(c.args[1].get("v")) == "0":
                    l0 = True
            if not l0:
                continue
            n += 1
            names = {c.sres for c in calls}
            whole = any(x.endswith("Level::list_ids") for x in names)
            sub = sorted(short(x) for x in names if x.endswith(SUBSET))
            r.check(whole and not sub, "%s|payload #%d from L0 = level.list_ids(), unfiltered" % (name, n),
                    "a payload takes a filtered subset of L0 (%s): newer L0 tables can be compacted past older ones that another "
                    "compaction still holds" % (sub or "no list_ids()"), f.where(i), str(sorted(short(x) for x in names)))
    if n < 3:
        r.anchor_missing("leveled payloads built from L0 (found %d, confirmed 3)" % n)
    r.floor(3)


def _chain_calls(prog, f, op, depth=8):
    out = []
    seen = set()

    def walk(fn_, op_, d):
        if d < 0 or op_ is None:
            return
        for o in origins(fn_, op_):
            if o.kind == "call":
                c = o.extra
                if (fn_.path, c.bb) in seen:
                    continue
                seen.add((fn_.path, c.bb))
                out.append(c)
                for cb in prog.callbacks(c):
                    g = prog.fns.get(cb)
                    if g is not None:
                        out.extend(g.calls)
                for a_ in c.args:
                    walk(fn_, a_, d - 1)
    walk(f, op, depth)
    return out


def c06n(prog, R, L, rid="C06.n"):
    """std's Mutex / RwLock are not re-entrant: a thread that acquires a lock it already holds blocks forever (and with it
    everyone waiting for the locks it holds).  No call made while a lock of class X is (possibly) held may acquire X again -
    unless the guard itself is handed to the callee by value."""
    from rules.engine import guard_class
    r = R.rule(rid, "no lock is acquired again while it is held (self-deadlock)", "L")
    n = 0
    bad = []
    for p, f in sorted(prog.fns.items()):
        if f.derived:
            continue
        for c in f.calls:
            acq = L.call_may_acquire(c)
            if not acq:
                continue
            held = {cls for (cls, _m) in L.held_at(f, c.bb, must=False)}
            both = acq & held
            if not both:
                continue
            # guards moved into the call travel with it
            moved = set()
            for t in c.arg_tys:
                gc = guard_class(t, CLASSES)
                if gc:
                    moved.add(gc[0])
            # a callee that starts by *receiving* the guard of that class
            both -= moved
            # the acquisition statement itself (lock().expect(..)) is not a nested acquisition
            if c.sres.endswith(("Mutex::lock", "RwLock::read", "RwLock::write")) and not (
                    {cls for (cls, _m) in L.held_at(f, c.bb, must=True)} & acq):
                continue
            n += 1
            if both:
                bad.append((p, c, sorted(both)))
    for (p, c, both) in bad:
        r.bad("%s|%s re-acquires %s" % (prog.fns.get(c.fn.root, c.fn).path, short(c.sres), "/".join(NAMES[b] for b in both)),
              "%s is called while the %s lock may be held and may acquire it again: the thread blocks on itself, the operation "
              "never returns and everything waiting for its locks hangs" % (short(c.sres), "/".join(NAMES[b] for b in both)), c.fn.where(c.bb))
    r.ok("census|nested acquisitions of a held lock class: %d" % len(bad), "%d call sites examined under a held lock" % n, nontrivial=False)
    r.check(not bad, "lock re-entrancy|no call under a held lock may take that lock again", "self-deadlock possible at %d site(s)" % len(bad), "")
    r.floor(1)


def c06p(prog, R, rid="C06.p"):
    """A level above L1 (and L0 always) can hold several overlapping runs.  A strategy that builds a payload from a level
    therefore walks *all* runs of that level; `first_run()` is only right where the level is known to be one disjoint run -
    the L1+ branch of the leveled strategy, which asserts it (pick_minimal_compaction).  Taking the first run only merges or
    moves the newest run past older ones that still hold older versions of the same keys."""
    r = R.rule(rid, "a compaction payload built from a level considers every run of that level", "D")
    n = 0
    for name, f in sorted(prog.fns.items()):
        if not name.endswith("as compaction::CompactionStrategy>::choose"):
            continue
        for i, b in enumerate(f.blocks):
            for st in b["stmts"]:
                if not (st["k"] == "assign" and st["rv"]["k"] == "agg" and st["rv"].get("adt") == "compaction::Input"):
                    continue
                idx = st["rv"]["fields"].index("table_ids")
                calls = _chain_calls(prog, f, st["rv"]["ops"][idx])
                names = {c.sres for c in calls}
                if not names:
                    continue
                n += 1
                first = any(x.endswith("::first_run") for x in names)
                tabled = any(x.endswith("leveled::pick_minimal_compaction") for x in names)
                r.check(not first or tabled, "%s|payload #%d walks all runs of the levels it takes from" % (name, n),
                        "a compaction payload is built from `first_run()` of a level that may hold several overlapping runs: the "
                        "newest run is merged / moved past older runs of the same level", f.where(i), str(sorted(short(x) for x in names))[:200])
    # the overlapping tables of a target level (appended to a payload through `extend`, or tested for a trivial move) are
    # gathered from every run of that level as well
    m = 0
    lv = prog.fn("<compaction::leveled::Strategy as compaction::CompactionStrategy>::choose")
    if lv is not None:
        for c in lv.calls:
            if not c.sres.endswith(("Iterator::collect", "Iterator>::next", "Iterator::next")) or not c.args:
                continue
            names = {x.sres for x in _chain_calls(prog, lv, c.args[0])}
            if not any(x.endswith("Run::get_overlapping") for x in names):
                continue
            m += 1
            first = any(x.endswith("::first_run") for x in names)
            allruns = any(x.endswith(("GenericLevel::iter", "Level::iter")) for x in names) and any(x.endswith("Iterator::flat_map") for x in names)
            r.check(allruns and not first, "%s|overlapping tables of the target level #%d come from all of its runs" % (lv.path, m),
                    "the tables overlapping an L0 compaction are looked up in `first_run()` of the target level only: an older run of that "
                    "level keeps older versions (and loses the tombstones meant for them)", lv.where(c.bb), str(sorted(short(x) for x in names))[:200])
        if m < 2:
            r.anchor_missing("get_overlapping lookups in leveled choose (found %d, confirmed 2)" % m)
    if n < 7:
        r.anchor_missing("compaction payloads in strategies (found %d, confirmed 7)" % n)
    r.floor(9)
