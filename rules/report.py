"""Reporting: rule instances, violations, known findings, replay files, evidence."""
import hashlib
import json
import os
import time

VERIF = os.path.dirname(os.path.dirname(os.path.abspath(__file__)))
KNOWN_FILE = os.path.join(VERIF, "known_findings.jsonl")

TRUSTED_BASE = [
    "rustc (nightly 1.97) MIR construction, type checking and trait resolution as dumped by lsmfacts",
    "CFG over-approximation: every execution follows a path of the MIR control-flow graph",
    "library models (DESIGN.md 2.3 M): Result::inspect_err/map_err/inspect, Option::map/and_modify, "
    "Iterator adaptors, mem::drop, NamedTempFile::persist = rename, File::sync_all = fsync, "
    "std::fs::remove_file = unlink, sfa::Writer/Reader",
    "bodies of dependencies and std are not analysed; cfg(windows)/cfg(test) code is not seen",
]


def load_known():
    known, fixed = {}, {}
    if os.path.exists(KNOWN_FILE):
        with open(KNOWN_FILE) as f:
            for line in f:
                line = line.strip()
                if not line or line.startswith("#"):
                    continue
                e = json.loads(line)
                if e.get("status") == "known":
                    known[(e["property"], e["key"])] = e
                elif e.get("status") == "fixed":
                    fixed[(e["property"], e["key"])] = e
    return known, fixed


class Rule:
    def __init__(self, report, rid, title, kind):
        self.report = report
        self.id = rid
        self.title = title
        self.kind = kind
        self.instances = []   # dict(key, ok, detail, nontrivial, universe)
        self.floor_n = None
        self.problems = []

    def ok(self, key, detail="", nontrivial=True):
        self.instances.append({"key": key, "ok": True, "detail": detail, "nontrivial": nontrivial,
                               "universe": self.report.universe})

    def bad(self, key, msg, where="", detail=""):
        self.instances.append({"key": key, "ok": False, "detail": detail or msg, "nontrivial": True,
                               "universe": self.report.universe})
        self.report.add_violation(self, key, msg, where)

    def check(self, cond, key, msg_bad, where="", detail=""):
        if cond:
            self.ok(key, detail)
        else:
            self.bad(key, msg_bad, where, detail)
        return cond

    def anchor_missing(self, anchor):
        self.report.add_violation(self, "ANCHOR-MISSING:" + anchor,
                                  "ANCHOR-MISSING rule=%s anchor=%s (the rule cannot vouch for a tree it cannot see)"
                                  % (self.id, anchor), "")

    def floor(self, n, what="instances"):
        """Fail closed if fewer instances matched than were confirmed by reading."""
        got = len([i for i in self.instances if i["universe"] == self.report.universe])
        self.floor_n = n
        if got < n:
            self.report.add_violation(self, "FLOOR", "rule %s matched %d %s, floor is %d (anchor drift?)"
                                      % (self.id, got, what, n), "")


class Report:
    def __init__(self, prop, tier, seed=0):
        self.prop = prop
        self.tier = tier
        self.seed = seed
        self.rules = {}
        self.violations = []     # dict(rule, key, msg, where, universes)
        self.universe = "default"
        self.universes = []
        self.t0 = time.time()
        self.notes = []
        self.metas = []
        self.fixture_results = []
        self.known, self.fixed = load_known()

    def set_universe(self, u, meta=None):
        self.universe = u
        if u not in self.universes:
            self.universes.append(u)
        if meta:
            self.metas.append(meta)

    def rule(self, rid, title, kind=""):
        if rid not in self.rules:
            self.rules[rid] = Rule(self, rid, title, kind)
        return self.rules[rid]

    def add_violation(self, rule, key, msg, where):
        full = "%s|%s" % (rule.id, key)
        for v in self.violations:
            if v["key"] == full:
                if self.universe not in v["universes"]:
                    v["universes"].append(self.universe)
                return
        self.violations.append({"rule": rule.id, "key": full, "msg": msg, "where": where,
                                "universes": [self.universe], "title": rule.title})

    def note(self, s):
        self.notes.append(s)

    # ------------------------------------------------------------------
    def finish(self, explanation, assumptions=(), extra=None, write=True, quiet=False):
        wall = time.time() - self.t0
        unlisted = []
        known_hits = []
        for v in self.violations:
            k = (self.prop, v["key"])
            if k in self.known:
                known_hits.append((v, self.known[k]))
            else:
                unlisted.append(v)
        out = []
        p = out.append
        p("== %s  tier=%s  universes=%s" % (self.prop, self.tier, ",".join(self.universes)))
        all_inst = []
        for rid in sorted(self.rules):
            r = self.rules[rid]
            n_ok = len([i for i in r.instances if i["ok"]])
            n_bad = len([i for i in r.instances if not i["ok"]])
            p("  [%s] %s  (%s)  instances=%d ok=%d bad=%d%s" % (rid, r.title, r.kind, len(r.instances), n_ok, n_bad,
              ("  floor=%d" % r.floor_n) if r.floor_n is not None else ""))
            if not quiet:
                shown = set()
                for i in r.instances:
                    if i["universe"] != self.universes[0] and i["ok"]:
                        continue
                    tag = "ok " if i["ok"] else "BAD"
                    line = "      %s %s%s" % (tag, i["key"], (" — " + i["detail"]) if i["detail"] else "")
                    if line not in shown:
                        shown.add(line)
                        p(line[:400])
            all_inst.extend(r.instances)
        for n in self.notes:
            p("  note: " + n)
        for (v, e) in known_hits:
            p("KNOWN-FINDING: property=%s %s — %s" % (self.prop, v["key"], e.get("what", v["msg"])))
        os.makedirs(os.path.join(VERIF, "replay", self.prop), exist_ok=True)
        for v in unlisted:
            h = hashlib.sha1(v["key"].encode()).hexdigest()[:10]
            rp = os.path.join(VERIF, "replay", self.prop, "%s-%s.json" % (v["rule"].replace("/", "_"), h))
            with open(rp, "w") as f:
                json.dump({"property": self.prop, "rule": v["rule"], "key": v["key"], "msg": v["msg"],
                           "where": v["where"], "universes": v["universes"], "tier": self.tier,
                           "facts": self.metas}, f, indent=1)
            p("  !! %s: %s" % (v["key"], v["msg"]))
            if v["where"]:
                p("     at %s" % v["where"])
            p("VIOLATION property=%s replay=%s" % (self.prop, rp))
        distinct_keys = set()
        for i in all_inst:
            if i["nontrivial"]:
                distinct_keys.add(i["key"])
        evaluations = len(all_inst)
        obligations = len(set((i["key"]) for i in all_inst))
        discharged = len(set(i["key"] for i in all_inst if i["ok"]) - set(i["key"] for i in all_inst if not i["ok"]))
        samples = []
        seen_rules = set()
        for rid in sorted(self.rules):
            for i in self.rules[rid].instances:
                if rid not in seen_rules or len(samples) < 40:
                    if (rid, i["key"]) not in seen_rules:
                        samples.append({"rule": rid, "instance": i["key"], "holds": i["ok"], "detail": i["detail"][:300],
                                        "universe": i["universe"]})
                        seen_rules.add((rid, i["key"]))
                    seen_rules.add(rid)
            if len(samples) > 120:
                break
        ev = {
            "property_id": self.prop,
            "tier": self.tier,
            "seed": self.seed,
            "level": "other",
            "coverage": {
                "explanation": explanation,
                "evaluations": evaluations,
                "distinct_nontrivial": len(distinct_keys),
                "rule": "one case = one rule instance (rule id + resolved anchor sites in one function) evaluated on "
                        "the MIR/HIR facts of one cfg universe; non-trivial = the instance matched at least one anchor "
                        "site in the analysed tree and required a graph/path/def-use query; distinct = distinct "
                        "instance keys (universes collapse)",
                "obligations": obligations,
                "discharged": discharged,
                "checker_cmd": "./check %s --tier %s" % (self.prop, self.tier),
                "trusted_base": TRUSTED_BASE,
                "samples": samples,
                "exhaustive": False,
                "universes": self.universes,
                "facts": self.metas,
                "rules": [{"id": rid, "title": self.rules[rid].title, "kind": self.rules[rid].kind,
                           "instances": len(self.rules[rid].instances), "floor": self.rules[rid].floor_n}
                          for rid in sorted(self.rules)],
                "fixture_controls": self.fixture_results,
                "known_findings_hit": [v["key"] for v, _ in known_hits],
                "violations_detail": [{"key": v["key"], "msg": v["msg"], "where": v["where"]} for v in unlisted],
            },
            "assumptions": list(assumptions) + TRUSTED_BASE,
            "wall_s": round(wall, 2),
            "violations": len(unlisted),
        }
        if extra:
            ev["coverage"].update(extra)
        if write:
            os.makedirs(os.path.join(VERIF, "evidence"), exist_ok=True)
            with open(os.path.join(VERIF, "evidence", self.prop + ".json"), "w") as f:
                json.dump(ev, f, indent=1)
        p("== %s: %d rule instances, %d distinct, %d violation(s), %d known finding(s), %.1fs"
          % (self.prop, evaluations, len(distinct_keys), len(unlisted), len(known_hits), wall))
        print("\n".join(out))
        return 1 if unlisted else 0
