"""Repository anchors (current bearers of the roles of DESIGN.md §2.4), shared by the property modules."""
import re

# std / dependency primitives (roles)
SYNC_ALL = "std::fs::File::sync_all"
REMOVE_FILE = "std::fs::remove_file"
CREATE_DIR_ALL = "std::fs::create_dir_all"
FILE_CREATE = "std::fs::File::create"
FILE_CREATE_NEW = "std::fs::File::create_new"
FILE_OPEN = "std::fs::File::open"
PERSIST = "tempfile::NamedTempFile::persist"
WRITE_ALL = "std::io::Write::write_all"
SFA_INTO_INNER = re.compile(r"^sfa::(writer::)?Writer(::<.*>)?::into_inner$")
SFA_FINISH = re.compile(r"^sfa::(writer::)?Writer(::<.*>)?::finish$")
VEC_DEQUE_PUSH_BACK = "std::collections::VecDeque::push_back"
VEC_DEQUE_POP_BACK = "std::collections::VecDeque::pop_back"
VEC_DEQUE_POP_FRONT = "std::collections::VecDeque::pop_front"

# crate-level names
FSYNC_DIR = "file::fsync_directory"
REWRITE_ATOMIC = "file::rewrite_atomic"
PERSIST_TEMP = "file::persist_temp_file"
PERSIST_VERSION = "version::persist::persist_version"
UPGRADE = "version::super_version::SuperVersions::upgrade_version"
UPGRADE_SEQNO = "version::super_version::SuperVersions::upgrade_version_with_seqno"
APPEND_VERSION = "version::super_version::SuperVersions::append_version"
REPLACE_LATEST = "version::super_version::SuperVersions::replace_latest_version"
MAINTENANCE = "version::super_version::SuperVersions::maintenance"
LATEST_VERSION = "version::super_version::SuperVersions::latest_version"
TABLE_MARK_DELETED = "table::Table::mark_as_deleted"
BLOB_MARK_DELETED = "vlog::blob_file::BlobFile::mark_as_deleted"
HIDE = "compaction::state::hidden_set::HiddenSet::hide"
SHOW = "compaction::state::hidden_set::HiddenSet::show"

TABLE_WRITER_FINISH = "table::writer::Writer::finish"
TABLE_MULTI_FINISH = "table::multi_writer::MultiWriter::finish"
BLOB_WRITER_FINISH = "vlog::blob_file::writer::Writer::finish"
BLOB_MULTI_FINISH = "vlog::blob_file::multi_writer::MultiWriter::finish"
BLOB_CONSUME_WRITER = "vlog::blob_file::multi_writer::MultiWriter::consume_writer"
TABLE_RECOVER = "table::Table::recover"

TREE = "tree::Tree"
BLOBTREE = "blob_tree::BlobTree"


def tm(ty, method, trait="abstract_tree::AbstractTree"):
    return "<%s as %s>::%s" % (ty, trait, method)


TREE_FLUSH_TO_TABLES = tm(TREE, "flush_to_tables")
BLOB_FLUSH_TO_TABLES = tm(BLOBTREE, "flush_to_tables")
TREE_REGISTER_TABLES = tm(TREE, "register_tables")
BLOB_REGISTER_TABLES = tm(BLOBTREE, "register_tables")
ABSTRACT_FLUSH = "abstract_tree::AbstractTree::flush"
MERGE_TABLES = "compaction::worker::merge_tables"
MOVE_TABLES = "compaction::worker::move_tables"
DROP_TABLES = "compaction::worker::drop_tables"
DO_COMPACTION = "compaction::worker::do_compaction"
HIDDEN_GUARD = "compaction::worker::hidden_guard"
STD_FINISH = "<compaction::flavour::StandardCompaction as compaction::flavour::CompactionFlavour>::finish"
RELOC_FINISH = "<compaction::flavour::RelocatingCompaction as compaction::flavour::CompactionFlavour>::finish"
FLAVOUR_FINISH = "compaction::flavour::CompactionFlavour::finish"
FLAVOUR_WRITE = "compaction::flavour::CompactionFlavour::write"
INGEST_FINISH = "tree::ingest::Ingestion::finish"   # resolved through stripped generics
BLOB_INGEST_FINISH = "blob_tree::ingest::BlobIngestion::finish"
TREE_CLEAR = tm(TREE, "clear")
BLOB_CLEAR = tm(BLOBTREE, "clear")
