"""Rule engine: program model over lsmfacts JSON + the rule primitives of DESIGN.md §2.3.

Everything here is a graph query over MIR control-flow graphs, the call graph, or the typed
HIR tree.  Nothing executes code of the analysed crate.
"""
import json
import os
import re
from collections import defaultdict, deque

# --------------------------------------------------------------------------------------
# program model


class Call:
    __slots__ = ("fn", "bb", "path", "res", "rkind", "trait", "substs", "args", "arg_tys", "dest", "target",
                 "unwind", "ln", "ex", "local", "raw", "sres", "spath")

    def __init__(self, fn, bb, term):
        c = term["callee"]
        self.fn = fn
        self.bb = bb
        self.path = c.get("path")
        self.res = c.get("res") or c.get("path")
        self.rkind = c.get("rkind")
        self.trait = c.get("trait")
        self.substs = c.get("substs", [])
        self.args = term.get("args", [])
        self.arg_tys = term.get("arg_tys", [])
        self.dest = term.get("dest")
        self.target = term.get("target")
        self.unwind = term.get("unwind")
        self.ln = term.get("fn_ln", term.get("ln"))
        self.ex = term.get("ex")
        self.local = c.get("local", False)
        self.raw = term
        self.sres = strip_generics(self.res)
        self.spath = strip_generics(self.path)

    @property
    def names(self):
        return (self.res, self.path)

    def is_to(self, *pats):
        """pats: exact def paths (resolved or generic) or compiled regexes."""
        for p in pats:
            if isinstance(p, str):
                if self.res == p or self.path == p or self.sres == p or self.spath == p:
                    return True
            elif p is not None:
                if (self.sres and p.search(self.sres)) or (self.spath and p.search(self.spath)):
                    return True
        return False

    def where(self):
        return "%s bb%d (line %s) -> %s" % (self.fn.path, self.bb, self.ln, self.res)

    def __repr__(self):
        return "<Call %s>" % self.where()


def strip_generics(p):
    """`std::sync::RwLock::<T>::read` -> `std::sync::RwLock::read` (for readable matching)."""
    if p is None:
        return None
    out = []
    depth = 0
    i = 0
    while i < len(p):
        ch = p[i]
        if ch == "<":
            # keep a leading `<T as Trait>` qualified-self
            if i == 0 or (depth == 0 and p[i - 1] != ":"):
                pass
            if depth > 0 or (i >= 2 and p[i - 2:i] == "::"):
                depth += 1
                if depth == 1:
                    # drop the preceding '::'
                    if out[-2:] == [":", ":"]:
                        out = out[:-2]
                i += 1
                continue
            else:
                # qualified path `<X as Y>::m` – keep as is
                j = i
                d = 0
                while j < len(p):
                    if p[j] == "<":
                        d += 1
                    elif p[j] == ">":
                        d -= 1
                        if d == 0:
                            break
                    j += 1
                out.extend(p[i:j + 1])
                i = j + 1
                continue
        if depth > 0:
            if ch == ">":
                depth -= 1
            i += 1
            continue
        out.append(ch)
        i += 1
    return "".join(out)


class Fn:
    def __init__(self, prog, raw):
        self.prog = prog
        self.raw = raw
        self.path = raw["path"]
        self.kind = raw["kind"]
        self.file = raw["file"]
        self.ln = raw["ln"]
        self.ln_end = raw.get("ln_end", raw["ln"])
        self.root = raw.get("root", self.path)
        self.parent = raw.get("parent")
        self.blocks = raw["blocks"]
        self.locals = raw["locals"]
        self.argc = raw["argc"]
        self.trait_item = raw.get("trait_item")
        self.impl_self = raw.get("impl_self")
        self.derived = raw.get("derived", False)
        self.n = len(self.blocks)
        self._calls = None
        self._succ = None
        self._pred = None
        self._dom = None
        self._pdom = None
        self._defs = None
        self.varnames = {}
        for v in raw.get("vars", []):
            pl = v["place"]
            if "p" not in pl:
                self.varnames.setdefault(pl["l"], v["name"])
        self.upvar_names = {}
        for v in raw.get("vars", []):
            pl = v["place"]
            if pl["l"] == 1 and "p" in pl:
                for e in pl["p"]:
                    if e.startswith(".^"):
                        self.upvar_names[int(e[2:].split(":")[0])] = v["name"]

    # ---- basic structure
    def local_ty(self, l):
        return self.locals[l]["ty"]

    def ret_ty(self):
        return self.locals[0]["ty"]

    def local_name(self, l):
        n = self.varnames.get(l, "_%d" % l)
        m = self.prog.renamed.get(self.root if self.kind == "closure" else self.path) if self.prog.renamed else None
        return m.get(n, n) if m else n

    def is_cleanup(self, bb):
        return self.blocks[bb].get("cleanup", False)

    @property
    def calls(self):
        if self._calls is None:
            cs = []
            for i, b in enumerate(self.blocks):
                t = b["term"]
                if t["k"] == "call" and not b.get("cleanup"):
                    cs.append(Call(self, i, t))
            self._calls = cs
        return self._calls

    def call_at(self, bb):
        t = self.blocks[bb]["term"]
        if t["k"] == "call":
            return Call(self, bb, t)
        return None

    def calls_to(self, *pats):
        return [c for c in self.calls if c.is_to(*pats)]

    def succ(self, bb):
        """Normal (non-unwind) successors."""
        if self._succ is None:
            self._build_edges()
        return self._succ[bb]

    def pred(self, bb):
        if self._pred is None:
            self._build_edges()
        return self._pred[bb]

    def _build_edges(self):
        succ = []
        for b in self.blocks:
            t = b["term"]
            k = t["k"]
            s = []
            if k in ("goto", "drop", "assert"):
                s = [t["target"]]
            elif k == "call":
                if "target" in t:
                    s = [t["target"]]
            elif k == "switch":
                s = [x[1] for x in t["targets"]] + [t["otherwise"]]
            # de-duplicate, keep order
            seen = []
            for x in s:
                if x not in seen:
                    seen.append(x)
            succ.append(seen)
        pred = [[] for _ in self.blocks]
        for i, ss in enumerate(succ):
            for s in ss:
                pred[s].append(i)
        self._succ = succ
        self._pred = pred

    def return_blocks(self):
        r = getattr(self, "_rets", None)
        if r is None:
            r = self._rets = [i for i, b in enumerate(self.blocks) if b["term"]["k"] == "return" and not b.get("cleanup")]
        return r

    def returns_result(self):
        t = self.ret_ty()
        return t.startswith("std::result::Result<") or t.startswith("std::option::Option<std::result::Result<")

    # ---- reachability
    def reach(self, starts, cut_blocks=(), cut_edges=(), stop_at=()):
        """Blocks reachable from `starts` (inclusive) along normal edges, never entering a block in
        cut_blocks, never following an edge in cut_edges; blocks in stop_at are reached but not expanded."""
        cut_blocks = set(cut_blocks)
        cut_edges = set(cut_edges)
        stop_at = set(stop_at)
        seen = set()
        dq = deque(s for s in starts if s not in cut_blocks)
        seen.update(dq)
        while dq:
            b = dq.popleft()
            if b in stop_at:
                continue
            for s in self.succ(b):
                if s in seen or s in cut_blocks or (b, s) in cut_edges:
                    continue
                seen.add(s)
                dq.append(s)
        return seen

    def reach_after(self, bb, **kw):
        """Blocks reachable after the terminator of bb completed normally."""
        return self.reach(self.succ(bb), **kw)

    # ---- dominators
    def dominators(self):
        if self._dom is None:
            self._dom = _dominators(self.n, 0, self.succ, self.pred)
        return self._dom

    def dominates(self, a, b):
        """a dominates b (on the normal-edge CFG from entry)."""
        dom = self.dominators()
        x = b
        while x is not None:
            if x == a:
                return True
            nx = dom.get(x)
            if nx == x:
                break
            x = nx
        return False

    def postdominators(self):
        if self._pdom is None:
            # virtual exit node n joins all exits (return, unreachable, calls without target)
            n = self.n
            exits = [i for i in range(n) if not self.succ(i) and not self.is_cleanup(i)]

            def rsucc(b):
                if b == n:
                    return exits
                return self.pred(b)

            def rpred(b):
                if b == n:
                    return []
                r = list(self.succ(b))
                if b in exits:
                    r.append(n)
                return r
            self._pdom = _dominators(n + 1, n, rsucc, rpred)
        return self._pdom

    def postdominates(self, a, b):
        pd = self.postdominators()
        x = b
        while x is not None:
            if x == a:
                return True
            nx = pd.get(x)
            if nx == x:
                break
            x = nx
        return False

    # ---- definitions of locals
    def defs(self):
        """local -> list of (bb, kind, payload): kind in assign/call/arg."""
        if self._defs is None:
            d = defaultdict(list)
            for i, b in enumerate(self.blocks):
                if b.get("cleanup"):
                    continue
                for si, st in enumerate(b["stmts"]):
                    if st["k"] == "assign":
                        d[st["to"]["l"]].append((i, "assign", st))
                t = b["term"]
                if t["k"] == "call":
                    d[t["dest"]["l"]].append((i, "call", t))
            self._defs = d
        return self._defs

    def where(self, bb=None):
        if bb is None:
            return "%s (%s:%d)" % (self.path, self.file, self.ln)
        t = self.blocks[bb]["term"]
        return "%s bb%d (%s:%s)" % (self.path, bb, self.file, t.get("fn_ln", t.get("ln")))


def _dominators(n, root, succ, pred):
    """Cooper-Harvey-Kennedy; returns idom dict (root maps to itself). Unreachable nodes absent."""
    order = []
    seen = set([root])
    stack = [(root, iter(succ(root)))]
    while stack:
        node, it = stack[-1]
        adv = False
        for s in it:
            if s not in seen:
                seen.add(s)
                stack.append((s, iter(succ(s))))
                adv = True
                break
        if not adv:
            order.append(node)
            stack.pop()
    rpo = list(reversed(order))
    idx = {b: i for i, b in enumerate(rpo)}
    idom = {root: root}

    def intersect(a, b):
        while a != b:
            while idx[a] > idx[b]:
                a = idom[a]
            while idx[b] > idx[a]:
                b = idom[b]
        return a
    changed = True
    while changed:
        changed = False
        for b in rpo[1:]:
            new = None
            for p in pred(b):
                if p in idom:
                    new = p if new is None else intersect(p, new)
            if new is not None and idom.get(b) != new:
                idom[b] = new
                changed = True
    return idom


class Prog:
    def __init__(self, facts, meta=None):
        self.facts = facts
        self.meta = meta or {}
        self.renamed = {}
        self.fns = {}
        for raw in facts["fns"]:
            self.fns[raw["path"]] = Fn(self, raw)
        self.adts = {a["path"]: a for a in facts["adts"]}
        self.impls = facts["impls"]
        self.traits = {t["path"]: t for t in facts.get("traits", [])}
        self.hir = {h["fn"]: h for h in facts.get("hir", [])}
        if self.meta.get("crate", facts.get("crate")) == "lsm_tree":
            self._tolerate_renames()
        self.closures_of = defaultdict(list)   # root fn path -> closure Fns (all nesting levels)
        self.children = defaultdict(list)      # parent path -> direct closure Fns
        for f in self.fns.values():
            if f.kind == "closure":
                self.closures_of[f.root].append(f)
                self.children[f.parent].append(f)
        # trait method -> implementing fn paths
        self.impl_of_trait_item = defaultdict(list)
        for im in self.impls:
            for m in im["methods"]:
                ti = m.get("trait_item")
                if ti:
                    self.impl_of_trait_item[ti].append(m["path"])
        self._callers = None
        self._callgraph = None

    def _tolerate_renames(self):
        """The (B)/(G) rules read typed-HIR expressions in which locals appear by name.  A plain rename of a local or a
        parameter is behaviour-preserving, so it must not change what the rules see: the binding names of every function
        as they were when the rules were confirmed are kept in rules/refnames.json; when a function's names differ from
        that reference only by substitution (k names gone, k new names, in binding order), the new names are mapped back
        to the reference names before any rule runs.  Structure, operators, callees and operand positions are untouched,
        so the mapping cannot hide a semantic change; when the name sets differ in any other way nothing is mapped."""
        ref = load_refnames()
        if not ref:
            return
        for path, h in self.hir.items():
            want = ref.get(path)
            if not want:
                continue
            cur = hir_binding_names(h)
            if cur == want:
                continue
            cs, ws = set(cur), set(want)
            gone = [n for n in want if n not in cs]
            new = [n for n in cur if n not in ws]
            if not gone or len(gone) != len(new):
                continue
            m = dict(zip(new, gone))
            _hir_rename(h, m)
            self.renamed[path] = m

    def fn(self, path):
        f = self.fns.get(path)
        if f is None:
            idx = self.__dict__.get("_stripped")
            if idx is None:
                idx = self._stripped = {}
                for p, g in self.fns.items():
                    idx.setdefault(strip_generics(p), g)
            f = idx.get(path)
        return f

    def need(self, path):
        f = self.fn(path)
        if f is None:
            raise AnchorMissing("fn", path)
        return f

    def find_fns(self, pat):
        rx = re.compile(pat)
        return [f for p, f in sorted(self.fns.items()) if rx.search(p)]

    def all_calls(self, *pats, skip_derived=True):
        out = []
        for p in sorted(self.fns):
            f = self.fns[p]
            if skip_derived and f.derived:
                continue
            for c in f.calls:
                if c.is_to(*pats):
                    out.append(c)
        return out

    def family(self, f):
        """A function together with all closures nested in it."""
        root = f.root
        fam = [self.fns[root]] if root in self.fns else []
        fam += self.closures_of.get(root, [])
        return fam

    # ---- call graph over local functions
    def callees(self, f):
        """Local functions f may call directly: resolved local calls, virtual/generic calls expanded to
        all local impls of the trait method, and closures constructed in f (conservatively 'called')."""
        cg = self._ensure_cg()
        return cg.get(f.path, set())

    def _ensure_cg(self):
        if self._callgraph is None:
            cg = defaultdict(set)
            for p, f in self.fns.items():
                for c in f.calls:
                    for t in self.may_targets(c):
                        cg[p].add(t)
                for ch in self.children.get(p, []):
                    cg[p].add(ch.path)
            self._callgraph = cg
        return self._callgraph

    def call_targets(self, c, std_traits=False):
        """Local functions a call may dispatch to.  Unresolved (generic / virtual) calls are expanded to every
        local impl of the trait method when the trait is local to the crate; calls through std traits
        (Iterator::next, FnOnce::call_once, ...) are expanded only with std_traits=True — closures and fn items
        reach their call sites through `callbacks` instead."""
        out = []
        dyn = c.rkind in ("virtual", "generic") or (c.res not in self.fns and c.path in self.impl_of_trait_item)
        if dyn and not std_traits and c.trait is not None and c.trait not in self.traits:
            dyn = False
        if dyn:
            for t in self.impl_of_trait_item.get(c.path, []):
                if t in self.fns:
                    out.append(t)
            # provided (default) method body
            if c.path in self.fns:
                out.append(c.path)
        if c.res in self.fns:
            out.append(c.res)
        elif c.path in self.fns and c.path not in out:
            out.append(c.path)
        return out

    def callbacks(self, c):
        """Functions handed to call c as arguments: fn items and closures (def-use to the aggregate)."""
        key = (c.fn.path, c.bb)
        cache = self.__dict__.setdefault("_cb_cache", {})
        if key in cache:
            return cache[key]
        out = []
        for a in c.args:
            if a.get("o") == "const":
                if a.get("fn"):
                    out.append(a["fn"])
                elif a.get("closure"):
                    out.append(a["closure"])
                continue
            for o in origins(c.fn, a):
                if o.kind == "agg" and isinstance(o.extra, dict) and o.extra.get("closure"):
                    out.append(o.extra["closure"])
                elif o.kind == "const" and isinstance(o.extra, dict) and (o.extra.get("fn") or o.extra.get("closure")):
                    out.append(o.extra.get("fn") or o.extra.get("closure"))
        cache[key] = out
        return out

    def may_targets(self, c):
        out = list(self.call_targets(c))
        for cb in self.callbacks(c):
            if cb in self.fns:
                out.append(cb)
            else:
                for t in self.impl_of_trait_item.get(cb, []):
                    out.append(t)
        return out

    def callers(self):
        if self._callers is None:
            cg = self._ensure_cg()
            rev = defaultdict(set)
            for a, bs in cg.items():
                for b in bs:
                    rev[b].add(a)
            self._callers = rev
        return self._callers

    def reachable_fns(self, roots):
        cg = self._ensure_cg()
        seen = set(roots)
        dq = deque(roots)
        parent = {}
        while dq:
            a = dq.popleft()
            for b in cg.get(a, ()):
                if b not in seen:
                    seen.add(b)
                    parent[b] = a
                    dq.append(b)
        return seen, parent


class AnchorMissing(Exception):
    def __init__(self, kind, name):
        Exception.__init__(self, "%s %s" % (kind, name))
        self.kind = kind
        self.name = name


# --------------------------------------------------------------------------------------
# (S) success-CFG

TRY_BRANCH = "std::ops::Try::branch"
FROM_RESIDUAL = "std::ops::FromResidual::from_residual"


def _op_local(op):
    if op and op.get("o") in ("copy", "move") and "pl" not in op:
        return op["l"]
    return None


def _op_place_local(op):
    if op and op.get("o") in ("copy", "move"):
        return op["l"]
    return None


def try_sites(f):
    """List of `?` sites: dict(call_bb=bb of Try::branch, switch_bb, cont=bb, brk=bb, operand=op)."""
    out = []
    for c in f.calls:
        if c.path != TRY_BRANCH:
            continue
        if c.target is None:
            continue
        sw = c.target
        # the switch may be in the target block (after a discriminant read)
        t = f.blocks[sw]["term"]
        hops = 0
        while t["k"] == "goto" and hops < 3:
            sw = t["target"]
            t = f.blocks[sw]["term"]
            hops += 1
        if t["k"] != "switch":
            continue
        cont = brk = None
        for v, tb in t["targets"]:
            if v == 0:
                cont = tb
            elif v == 1:
                brk = tb
        if cont is None:
            cont = t["otherwise"]
        if brk is None:
            brk = t["otherwise"]
        out.append({"call_bb": c.bb, "switch_bb": sw, "cont": cont, "brk": brk, "operand": c.args[0] if c.args else None,
                    "call": c})
    return out


def _is_err_aggregate(rv):
    return rv.get("k") == "agg" and rv.get("agg") == "adt" and rv.get("adt") == "std::result::Result" and rv.get("variant") == "Err"


def error_blocks(f):
    """Blocks that put an `Err(..)` (or `Some(Err(..))`) into the return place, and blocks that call
    FromResidual::from_residual (the `?` error path)."""
    c = getattr(f, "_err_blocks", None)
    if c is not None:
        return c
    errs = set()
    err_locals = set()
    changed = True
    while changed:
        changed = False
        for i, b in enumerate(f.blocks):
            if b.get("cleanup"):
                continue
            for st in b["stmts"]:
                if st["k"] != "assign":
                    continue
                rv = st["rv"]
                to = st["to"]
                if "p" in to:
                    continue
                is_err = False
                if _is_err_aggregate(rv):
                    is_err = True
                elif rv.get("k") == "agg" and rv.get("adt") == "std::option::Option" and rv.get("variant") == "Some":
                    is_err = bool(rv["ops"]) and _op_local(rv["ops"][0]) in err_locals
                elif rv.get("k") == "use":
                    is_err = _op_local(rv["op"]) in err_locals
                if is_err:
                    if to["l"] == 0:
                        if i not in errs:
                            errs.add(i)
                            changed = True
                    elif to["l"] not in err_locals and len(f.defs().get(to["l"], [])) == 1:
                        err_locals.add(to["l"])
                        changed = True
    for i, b in enumerate(f.blocks):
        if b.get("cleanup"):
            continue
        t = b["term"]
        if t["k"] == "call" and t["callee"].get("path") == FROM_RESIDUAL:
            errs.add(i)
    f._err_blocks = errs
    return errs


def success_cuts(f):
    """(cut_blocks, cut_edges) that remove the error exits of f."""
    c = getattr(f, "_succ_cuts", None)
    if c is None:
        c = f._succ_cuts = _success_cuts(f)
    return c


def _success_cuts(f):
    cut_edges = set()
    for s in try_sites(f):
        if s["brk"] != s["cont"]:
            cut_edges.add((s["switch_bb"], s["brk"]))
    return error_blocks(f), cut_edges


def success_reach(f, starts=(0,), extra_cut_blocks=(), **kw):
    cb, ce = success_cuts(f)
    return f.reach(starts, cut_blocks=set(cb) | set(extra_cut_blocks), cut_edges=ce, **kw)


# --------------------------------------------------------------------------------------
# (P) must-pass-through with must-summaries

class MustSet:
    """A set of 'primitive' callee patterns closed under must-summaries: a local function g belongs to
    the closure if every success path of g from entry to return contains a call into the closure."""

    _cache = {}

    def __new__(cls, prog, prims, name="", closure_models=True):
        key = (id(prog), tuple(p if isinstance(p, str) else p.pattern for p in prims))
        inst = cls._cache.get(key)
        if inst is not None and inst.prog is prog:
            return inst
        inst = object.__new__(cls)
        inst._init(prog, prims, name)
        cls._cache[key] = inst
        return inst

    def __init__(self, *a, **k):
        pass

    def _init(self, prog, prims, name):
        self.prog = prog
        self.prims = list(prims)
        self.name = name
        self.members = set()
        self._fix()

    def call_in(self, c):
        if c.is_to(*self.prims):
            return True
        for t in self.prog.call_targets(c):
            if t in self.members:
                # virtual/generic expansion: all targets must be members
                ts = self.prog.call_targets(c)
                return all(x in self.members for x in ts)
        return False

    def blocks_in(self, f):
        return {c.bb for c in f.calls if self.call_in(c)}

    def _fix(self):
        rev = self.prog.callers()
        # candidates: functions with a direct primitive call; then callers of new members
        work = deque(p for p, f in self.prog.fns.items() if any(c.is_to(*self.prims) for c in f.calls))
        queued = set(work)
        while work:
            p = work.popleft()
            queued.discard(p)
            if p in self.members:
                continue
            f = self.prog.fns[p]
            if must_pass(f, self, from_bbs=None, to_bbs=None):
                self.members.add(p)
                for q in rev.get(p, ()):
                    if q not in self.members and q not in queued:
                        queued.add(q)
                        work.append(q)


class MaySet:
    """Functions that may (transitively, through the call graph incl. closures and fn-item arguments) reach a
    call matching one of the primitive patterns."""

    def __init__(self, prog, prims, name=""):
        self.prog = prog
        self.prims = list(prims)
        self.name = name
        direct = set()
        for p, f in prog.fns.items():
            if any(c.is_to(*self.prims) for c in f.calls):
                direct.add(p)
        # fns named by the prims themselves
        for pr in self.prims:
            if isinstance(pr, str) and pr in prog.fns:
                direct.add(pr)
        rev = prog.callers()
        seen = set(direct)
        dq = deque(direct)
        while dq:
            a = dq.popleft()
            for b in rev.get(a, ()):
                if b not in seen:
                    seen.add(b)
                    dq.append(b)
        self.members = seen

    def call_in(self, c):
        if c.is_to(*self.prims):
            return True
        return any(t in self.members for t in self.prog.may_targets(c))

    def blocks_in(self, f):
        return {c.bb for c in f.calls if self.call_in(c)}


def must_pass(f, mset, from_bbs=None, to_bbs=None, success_only=True, after=True):
    """True iff every (success-)path from `from_bbs` (default: entry) to `to_bbs` (default: return blocks)
    contains a call in mset.  With from_bbs given and after=True paths start *after* those blocks."""
    S = mset.blocks_in(f) if isinstance(mset, MustSet) else set(mset)
    if to_bbs is None:
        to_bbs = f.return_blocks()
    else:
        # "passes S before reaching the target": the target's own call does not count (a target whose callee happens to
        # be in the must-set, e.g. rewrite_atomic ending in fsync_directory, would make the question vacuous)
        S = set(S) - set(to_bbs)
    to_bbs = set(to_bbs)
    if not to_bbs:
        return False
    if from_bbs is None:
        starts = [0]
    else:
        starts = []
        for b in from_bbs:
            starts.extend(f.succ(b) if after else [b])
    cb, ce = success_cuts(f) if success_only else (set(), set())
    if 0 in S and from_bbs is None:
        return True
    r = f.reach(starts, cut_blocks=set(cb) | S, cut_edges=ce)
    hit = r & to_bbs
    return not hit


def witness_path(f, starts, targets, cut_blocks=(), cut_edges=()):
    """A shortest normal-edge path (list of bbs) from any start to any target avoiding the cuts, or None."""
    cut_blocks = set(cut_blocks)
    cut_edges = set(cut_edges)
    targets = set(targets)
    prev = {}
    dq = deque()
    for s in starts:
        if s not in cut_blocks and s not in prev:
            prev[s] = None
            dq.append(s)
    while dq:
        b = dq.popleft()
        if b in targets:
            path = []
            x = b
            while x is not None:
                path.append(x)
                x = prev[x]
            return list(reversed(path))
        for s in f.succ(b):
            if s in prev or s in cut_blocks or (b, s) in cut_edges:
                continue
            prev[s] = b
            dq.append(s)
    return None


def describe_path(f, path):
    out = []
    for b in path:
        t = f.blocks[b]["term"]
        if t["k"] == "call":
            out.append("bb%d:%s@%s" % (b, short(t["callee"].get("res") or t["callee"].get("path") or "?"), t.get("fn_ln", t.get("ln"))))
        elif t["k"] == "return":
            out.append("bb%d:return" % b)
    return out


def short(p):
    p = strip_generics(p) or p
    parts = p.split("::")
    return "::".join(parts[-2:]) if len(parts) > 2 else p


# --------------------------------------------------------------------------------------
# (O) success-ordered

def result_test_of(f, call):
    """For a call whose result is a Result: the edges taken when the result is Err, found either from the
    `?` applied to the call's destination or from a switch on its discriminant.
    Returns (ok_entry_blocks, err_edges) or None if the result is not tested."""
    dest = call.dest["l"] if call.dest and "p" not in call.dest else None
    if dest is None:
        return None
    # follow moves of the destination through trivial assignments and map_err-like adaptors
    carriers = {dest}
    grew = True
    passthrough = ("std::result::Result::map_err", "std::result::Result::inspect_err",
                   "std::result::Result::inspect", "std::convert::Into::into", "std::convert::From::from",
                   "std::option::Option::transpose", "std::result::Result::map", "std::result::Result::and_then")
    while grew:
        grew = False
        for i, b in enumerate(f.blocks):
            if b.get("cleanup"):
                continue
            for st in b["stmts"]:
                if st["k"] == "assign" and st["rv"]["k"] == "use":
                    l = _op_local(st["rv"]["op"])
                    if l in carriers and "p" not in st["to"] and st["to"]["l"] not in carriers:
                        carriers.add(st["to"]["l"])
                        grew = True
            t = b["term"]
            if t["k"] == "call" and strip_generics(t["callee"].get("path")) in passthrough and t["args"]:
                l = _op_local(t["args"][0])
                if l in carriers and t["dest"]["l"] not in carriers:
                    carriers.add(t["dest"]["l"])
                    grew = True
    for s in try_sites(f):
        l = _op_local(s["operand"])
        if l in carriers:
            return ([s["cont"]], {(s["switch_bb"], s["brk"])})
    # explicit match / if let on the discriminant
    for i, b in enumerate(f.blocks):
        if b.get("cleanup"):
            continue
        t = b["term"]
        if t["k"] != "switch":
            continue
        dl = _op_local(t["discr"])
        if dl is None:
            continue
        for (bb2, kind, payload) in f.defs().get(dl, []):
            if kind == "assign" and payload["rv"]["k"] == "discr" and payload["rv"]["place"]["l"] in carriers \
                    and payload["rv"]["ty"].startswith("std::result::Result<"):
                ok = [tb for v, tb in t["targets"] if v == 0]
                err = [tb for v, tb in t["targets"] if v == 1]
                oth = t["otherwise"]
                if not ok:
                    ok = [oth]
                if not err:
                    err = [oth]
                return (ok, {(i, e) for e in err if e not in ok})
    return None


def success_ordered(f, a_call, b_bb):
    """A => B: a_call's block dominates b_bb and B is reachable from A only through A's success edge.
    Returns (ok, reason)."""
    if not f.dominates(a_call.bb, b_bb):
        return False, "call %s does not dominate bb%d" % (short(a_call.res), b_bb)
    rt = result_test_of(f, a_call)
    if rt is None:
        # result returned unchanged or ignored: if A's type is not a Result this is plain dominance
        dty = f.local_ty(a_call.dest["l"]) if a_call.dest else ""
        if dty.startswith("std::result::Result<") or "Result<" in dty[:40]:
            return False, "result of %s is never tested before bb%d" % (short(a_call.res), b_bb)
        return True, "dominates (infallible)"
    ok_blocks, err_edges = rt
    r = f.reach_after(a_call.bb, cut_edges=err_edges and set(), cut_blocks=())
    # with the success edge removed, B must be unreachable from A
    succ_edges = set()
    for (sw, e) in err_edges:
        for s in f.succ(sw):
            if s != e:
                succ_edges.add((sw, s))
    r2 = f.reach_after(a_call.bb, cut_edges=succ_edges)
    if b_bb in r2:
        return False, "bb%d reachable from %s without passing its success edge" % (b_bb, short(a_call.res))
    return True, "dominates + success edge"


# --------------------------------------------------------------------------------------
# (D) local def-use

PASS_THROUGH_CALLS = (
    "std::clone::Clone::clone", "std::ops::Deref::deref", "std::ops::DerefMut::deref_mut", "std::convert::Into::into",
    "std::convert::From::from", "std::borrow::Borrow::borrow", "std::convert::AsRef::as_ref", "std::borrow::ToOwned::to_owned",
    "std::convert::AsMut::as_mut", "std::borrow::BorrowMut::borrow_mut", "std::option::Option::as_ref",
    "std::option::Option::as_mut", "std::option::Option::unwrap", "std::option::Option::expect",
    "std::result::Result::unwrap", "std::result::Result::expect", "std::option::Option::cloned",
    "std::option::Option::copied", "std::iter::IntoIterator::into_iter", "std::option::Option::as_deref",
    "std::sync::Arc::new", "std::boxed::Box::new", "std::option::Option::take",
)


class Origin:
    """One root a value may derive from."""
    __slots__ = ("kind", "what", "path", "bb", "extra")

    def __init__(self, kind, what, path=(), bb=None, extra=None):
        self.kind = kind      # param | call | const | agg | upvar | bin | other
        self.what = what      # param index / callee path / const value / adt path / upvar index
        self.path = tuple(path)  # field names applied after the root (outermost last)
        self.bb = bb
        self.extra = extra

    def key(self):
        return (self.kind, self.what, self.path)

    def __repr__(self):
        return "%s:%s%s" % (self.kind, self.what, "".join("." + p for p in self.path))


def _proj_fields(proj):
    out = []
    for e in proj or []:
        if e.startswith(".") and not e.startswith(".^"):
            out.append(e[1:].split(":")[0])
        elif e.startswith(".^"):
            out.append("^" + e[2:].split(":")[0])
    return out


def origins(f, op, extra_pass=(), depth=0, _seen=None):
    """Set of Origins of an operand (flow-insensitive over all definitions of each local)."""
    if _seen is None:
        _seen = set()
    res = []
    if op is None:
        return res
    if op.get("o") == "const":
        res.append(Origin("const", op.get("v", op.get("def", op.get("fn", op.get("s")))), extra=op))
        return res
    if op.get("o") not in ("copy", "move"):
        return res
    l = op["l"]
    proj = op.get("pl", {}).get("p", [])
    return origins_of_place(f, l, proj, extra_pass, _seen)


def origins_of_place(f, l, proj, extra_pass=(), _seen=None):
    if _seen is None:
        _seen = set()
    fields = _proj_fields(proj)
    key = (l, tuple(fields))
    if key in _seen:
        return []
    _seen.add(key)
    res = []
    # closure environment
    if f.kind == "closure" and l == 1 and fields and fields[0].startswith("^"):
        res.append(Origin("upvar", int(fields[0][1:]), fields[1:]))
        return res
    if 1 <= l <= f.argc:
        res.append(Origin("param", l, fields))
        # params can also be reassigned; continue to defs
    defs = f.defs().get(l, [])
    for (bb, kind, payload) in defs:
        if kind == "assign":
            to = payload["to"]
            if "p" in to:
                # partial assignment into a field of l: only relevant if it matches the projection prefix
                tf = _proj_fields(to["p"])
                if fields[:len(tf)] != tf:
                    continue
                rest = fields[len(tf):]
            else:
                rest = fields
            rv = payload["rv"]
            k = rv["k"]
            if k == "use":
                for o in origins(f, rv["op"], extra_pass, 0, _seen):
                    res.append(Origin(o.kind, o.what, o.path + tuple(rest), o.bb, o.extra))
            elif k in ("ref", "rawptr"):
                pl = rv["place"]
                for o in origins_of_place(f, pl["l"], pl.get("p", []), extra_pass, _seen):
                    res.append(Origin(o.kind, o.what, o.path + tuple(rest), o.bb, o.extra))
            elif k == "cast":
                for o in origins(f, rv["op"], extra_pass, 0, _seen):
                    res.append(Origin(o.kind, o.what, o.path + tuple(rest), o.bb, o.extra))
            elif k == "agg":
                if rv.get("agg") == "adt" and rest:
                    names = rv.get("fields", [])
                    if rest[0] in names:
                        idx = names.index(rest[0])
                        for o in origins(f, rv["ops"][idx], extra_pass, 0, _seen):
                            res.append(Origin(o.kind, o.what, o.path + tuple(rest[1:]), o.bb, o.extra))
                        continue
                if rv.get("agg") == "tuple" and rest and rest[0].isdigit() and int(rest[0]) < len(rv["ops"]):
                    for o in origins(f, rv["ops"][int(rest[0])], extra_pass, 0, _seen):
                        res.append(Origin(o.kind, o.what, o.path + tuple(rest[1:]), o.bb, o.extra))
                    continue
                res.append(Origin("agg", rv.get("adt") or rv.get("closure") or rv.get("agg"), rest, bb, rv))
            elif k == "bin":
                res.append(Origin("bin", rv["op"], rest, bb, rv))
            elif k == "un":
                res.append(Origin("un", rv["op"], rest, bb, rv))
            elif k == "discr":
                res.append(Origin("discr", rv["ty"], rest, bb, rv))
            else:
                res.append(Origin("other", k, rest, bb, rv))
        elif kind == "call":
            c = Call(f, bb, payload)
            if c.path == TRY_BRANCH and c.args:
                # `x?`: ((branch(x) as Continue).0) is the Ok/Some payload of x
                rest = fields[1:] if fields and fields[0] == "0" else fields
                for o in origins(f, c.args[0], extra_pass, 0, _seen):
                    res.append(Origin(o.kind, o.what, o.path + tuple(rest), o.bb, o.extra))
            elif (c.is_to(*PASS_THROUGH_CALLS) or c.is_to(*extra_pass)) and c.args:
                for o in origins(f, c.args[0], extra_pass, 0, _seen):
                    res.append(Origin(o.kind, o.what, o.path + tuple(fields), o.bb, o.extra))
            else:
                res.append(Origin("call", c.res, fields, bb, c))
    return res


def constituent_origins(prog, f, op, depth=4):
    """deep_origins that also descends into the operands of aggregates (Some(x), tuples, struct literals):
    what values is this operand built from?"""
    out = []
    for (g, o) in deep_origins(prog, f, op):
        if o.kind == "agg" and isinstance(o.extra, dict) and o.extra.get("ops") and depth > 0 and not o.extra.get("closure"):
            for sub in o.extra["ops"]:
                out.extend(constituent_origins(prog, g, sub, depth - 1))
        else:
            out.append((g, o))
    return out


def returned_payload_origins(f):
    """Origins of the value a Result/Option-returning body returns in its Ok/Some case."""
    out = []
    for i, b in enumerate(f.blocks):
        if b.get("cleanup"):
            continue
        for st in b["stmts"]:
            if st["k"] == "assign" and st["to"]["l"] == 0 and "p" not in st["to"]:
                rv = st["rv"]
                if rv["k"] == "agg" and rv.get("variant") in ("Ok", "Some") and rv["ops"]:
                    out.extend(origins(f, rv["ops"][0]))
                elif rv["k"] == "use":
                    out.extend(origins(f, rv["op"]))
    return out


def origin_callees(f, op, depth=5, _seen=None):
    """Callee names (stripped) reachable by following origins of `op` and, transitively, the arguments of the
    calls found (bounded depth): what computations does this value derive from?"""
    if _seen is None:
        _seen = set()
    out = set()
    if depth < 0:
        return out
    for o in origins(f, op):
        if o.kind == "call":
            c = o.extra
            key = (c.bb,)
            out.add(c.sres)
            if key in _seen:
                continue
            _seen.add(key)
            for a in c.args:
                out |= origin_callees(f, a, depth - 1, _seen)
        elif o.kind in ("bin", "un", "other") and isinstance(o.extra, dict):
            for k in ("a", "b", "op"):
                if k in o.extra and isinstance(o.extra[k], dict):
                    out |= origin_callees(f, o.extra[k], depth - 1, _seen)
    return out


def closure_capture_operand(prog, closure_fn, upvar_idx):
    """The operand captured as upvar #idx at the closure's construction site in its parent."""
    parent = prog.fns.get(closure_fn.parent)
    if parent is None:
        return None, None
    for i, b in enumerate(parent.blocks):
        for st in b["stmts"]:
            if st["k"] == "assign" and st["rv"]["k"] == "agg" and st["rv"].get("closure") == closure_fn.path:
                ops = st["rv"]["ops"]
                if upvar_idx < len(ops):
                    return parent, ops[upvar_idx]
    return parent, None


def deep_origins(prog, f, op, extra_pass=(), limit=6):
    """origins() that crosses closure captures up into enclosing functions."""
    out = []
    work = [(f, o) for o in origins(f, op, extra_pass)]
    n = 0
    while work and n < 200:
        n += 1
        g, o = work.pop()
        if o.kind == "upvar" and g.kind == "closure":
            parent, cop = closure_capture_operand(prog, g, o.what)
            if cop is not None:
                for po in origins(parent, cop, extra_pass):
                    work.append((parent, Origin(po.kind, po.what, po.path + o.path, po.bb, po.extra)))
                continue
        out.append((g, o))
    return out


# --------------------------------------------------------------------------------------
# (K) control dependence

def control_deps(f, bb):
    """Set of (branch_bb, taken_successor) such that bb is control-dependent on that edge (direct)."""
    out = set()
    for a in range(f.n):
        if f.is_cleanup(a):
            continue
        ss = f.succ(a)
        if len(ss) < 2:
            continue
        for s in ss:
            if (s == bb or f.postdominates(bb, s)) and not (a != bb and f.postdominates(bb, a)):
                out.add((a, s))
    return out


def control_deps_transitive(f, bb, limit=64):
    seen = set()
    work = [bb]
    out = set()
    while work and len(seen) < limit:
        b = work.pop()
        if b in seen:
            continue
        seen.add(b)
        for (a, s) in control_deps(f, b):
            out.add((a, s))
            work.append(a)
    return out


def switch_condition(f, bb):
    """Describe what the switch at bb tests: list of Origins of its discriminant."""
    t = f.blocks[bb]["term"]
    if t["k"] != "switch":
        return []
    return origins(f, t["discr"])


# --------------------------------------------------------------------------------------
# HIR helpers

REFNAMES = os.path.join(os.path.dirname(os.path.abspath(__file__)), "refnames.json")
_refnames_cache = None


def load_refnames():
    global _refnames_cache
    if _refnames_cache is None:
        try:
            with open(REFNAMES) as f:
                _refnames_cache = json.load(f)
        except (OSError, ValueError):
            _refnames_cache = {}
    return _refnames_cache


def hir_binding_names(h):
    """Names bound in a function (parameters first, then let / pattern / closure-parameter bindings in walk order),
    each once."""
    out = []
    seen = set()

    def walk(n):
        if isinstance(n, dict):
            if n.get("k") == "bind" and isinstance(n.get("n"), str) and n["n"] not in seen:
                seen.add(n["n"])
                out.append(n["n"])
            for k, v in n.items():
                walk(v)
        elif isinstance(n, list):
            for x in n:
                walk(x)
    walk(h.get("params", []))
    walk(h.get("body"))
    return out


def _hir_rename(n, m):
    if isinstance(n, dict):
        if n.get("k") in ("bind", "var") and n.get("n") in m:
            n["n"] = m[n["n"]]
        for v in n.values():
            _hir_rename(v, m)
    elif isinstance(n, list):
        for x in n:
            _hir_rename(x, m)


def hir_walk(node, depth=0, into_closures=True):
    """Pre-order walk over all dict nodes of a HIR tree."""
    if isinstance(node, dict):
        yield node
        for k, v in node.items():
            if k == "b" and node.get("k") == "closure" and not into_closures:
                continue
            if isinstance(v, (dict, list)):
                for x in hir_walk(v, depth + 1, into_closures):
                    yield x
    elif isinstance(node, list):
        for v in node:
            for x in hir_walk(v, depth + 1, into_closures):
                yield x


def hir_calls(node, into_closures=True):
    """All call / method-call nodes with a resolved path, in source order."""
    for n in hir_walk(node, 0, into_closures):
        if n.get("k") in ("call", "mcall") and n.get("p"):
            yield n


def hir_tail_name(node):
    """Terminal identifier of an expression: x.bytes -> bytes, &config.seqno -> seqno, foo -> foo,
    self.x.clone() -> x, *x -> x."""
    while isinstance(node, dict):
        k = node.get("k")
        if k == "var":
            return node["n"]
        if k == "field":
            return node["n"]
        if k in ("ref", "un", "cast", "try"):
            node = node.get("e")
            continue
        if k == "mcall" and node.get("m") in ("clone", "into", "as_ref", "borrow", "to_owned", "as_str", "as_slice",
                                                "unwrap", "expect", "get", "load", "as_deref", "as_mut", "to_vec",
                                                "copied", "cloned", "into_inner") :
            node = node.get("r")
            continue
        if k == "path":
            return node["p"].split("::")[-1]
        return None
    return None


def hir_expr_str(node, maxlen=120):
    """Compact rendering of a HIR expression (for reports and skeleton comparison)."""
    def r(n):
        if not isinstance(n, dict):
            return "?"
        k = n.get("k")
        if k == "var":
            return n["n"]
        if k == "field":
            return r(n["e"]) + "." + n["n"]
        if k == "lit":
            return str(n.get("v", n.get("s", n.get("bs", n.get("c", "lit")))))
        if k == "path":
            return n["p"]
        if k == "ref":
            return "&" + r(n["e"])
        if k == "un":
            return n["op"] + r(n["e"])
        if k == "bin":
            return "(%s %s %s)" % (r(n["l"]), n["op"], r(n["r"]))
        if k == "mcall":
            return "%s.%s(%s)" % (r(n["r"]), n["m"], ", ".join(r(a) for a in n["a"]))
        if k == "call":
            return "%s(%s)" % (n.get("p") or r(n.get("f")), ", ".join(r(a) for a in n["a"]))
        if k == "try":
            return r(n.get("e")) + "?"
        if k == "cast":
            return "%s as %s" % (r(n["e"]), n.get("t"))
        if k == "tuple":
            return "(" + ", ".join(r(a) for a in n["a"]) + ")"
        if k == "struct":
            return "%s{%s}" % (n["p"].split("::")[-1], ", ".join(x["n"] for x in n["f"]))
        if k == "closure":
            return "|..| " + r(n["b"])
        if k == "blockx":
            b = n["b"]
            if not b["s"] and "e" in b:
                return r(b["e"])
            return "{..}"
        if k == "index":
            return "%s[%s]" % (r(n["e"]), r(n["i"]))
        if k == "macro":
            return n["name"] + "!"
        return k or "?"
    s = r(node)
    return s if len(s) <= maxlen else s[:maxlen] + "…"


def pat_str(p):
    if not isinstance(p, dict):
        return "?"
    k = p.get("k")
    if k == "bind":
        return p["n"]
    if k == "wild":
        return "_"
    if k == "pts":
        return "%s(%s)" % (p["p"], ", ".join(pat_str(x) for x in p["a"]))
    if k == "ppath":
        return p["p"]
    if k == "pstruct":
        return "%s{%s}" % (p["p"], ", ".join(x["n"] for x in p["f"]))
    if k in ("ptuple", "por", "pslice"):
        sep = " | " if k == "por" else ", "
        return "(" + sep.join(pat_str(x) for x in p["a"]) + ")"
    if k == "pref":
        return "&" + pat_str(p["pat"])
    if k == "lit":
        return str(p.get("v", p.get("s", p.get("bs", "lit"))))
    return k or "?"


# --------------------------------------------------------------------------------------
# error discipline: what happens to a Result produced by a call

RESULT_ADAPTORS = (
    "std::result::Result::map_err", "std::result::Result::inspect_err", "std::result::Result::inspect",
    "std::result::Result::map", "std::result::Result::and_then", "std::option::Option::transpose",
    "std::result::Result::or_else", "std::convert::Into::into", "std::convert::From::from",
    "std::result::Result::as_ref", "std::result::Result::as_mut", "std::iter::Iterator::collect",
)
RESULT_PANICS = ("std::result::Result::expect", "std::result::Result::unwrap", "std::result::Result::unwrap_or_else",
                 "std::result::Result::expect_err", "std::result::Result::unwrap_err")
RESULT_SWALLOW = ("std::result::Result::ok", "std::result::Result::unwrap_or_default", "std::result::Result::unwrap_or",
                  "std::result::Result::is_ok", "std::result::Result::is_err", "std::result::Result::err",
                  "std::result::Result::is_ok_and", "std::result::Result::is_err_and", "std::result::Result::map_or",
                  "std::result::Result::map_or_else", "std::mem::drop")


def local_uses(f, l):
    """All reads of local l outside cleanup blocks: list of (bb, kind, payload)."""
    out = []

    def op_is(op):
        # reads of a payload through a downcast ((l as Err).0) are not uses of the Result itself
        return op is not None and op.get("o") in ("copy", "move") and op["l"] == l and "pl" not in op

    for i, b in enumerate(f.blocks):
        if b.get("cleanup"):
            continue
        for st in b["stmts"]:
            if st["k"] != "assign":
                continue
            rv = st["rv"]
            k = rv["k"]
            if k in ("use", "cast", "repeat") and op_is(rv["op"]):
                out.append((i, "assign", st))
            elif k in ("ref", "rawptr") and rv["place"]["l"] == l:
                out.append((i, "ref", st))
            elif k == "discr" and rv["place"]["l"] == l:
                out.append((i, "discr", st))
            elif k == "agg" and any(op_is(o) for o in rv["ops"]):
                out.append((i, "agg", st))
            elif k == "bin" and (op_is(rv["a"]) or op_is(rv["b"])):
                out.append((i, "bin", st))
            elif k == "un" and op_is(rv["a"]):
                out.append((i, "un", st))
        t = b["term"]
        if t["k"] == "call":
            for ai, a in enumerate(t["args"]):
                if op_is(a):
                    out.append((i, "arg", (Call(f, i, t), ai)))
        elif t["k"] == "switch" and op_is(t["discr"]):
            out.append((i, "switch", t))
        elif t["k"] == "drop" and t["place"]["l"] == l and "p" not in t["place"]:
            out.append((i, "drop", t))
    return out


def result_fate(f, call, _depth=0, _seen=None):
    """Set of fates of the Result returned by `call`: propagated | returned | panics | swallowed:<how> | escapes."""
    if _seen is None:
        _seen = set()
    fates = set()
    if not call.dest or "p" in call.dest:
        return {"escapes"}
    work = [call.dest["l"]]
    errs = error_blocks(f)
    while work:
        l = work.pop()
        if l in _seen:
            continue
        _seen.add(l)
        if l == 0:
            fates.add("returned")
            continue
        uses = local_uses(f, l)
        real = [u for u in uses if u[1] != "drop"]
        if not real:
            fates.add("swallowed:dropped")
            continue
        for (bb, kind, payload) in real:
            if kind == "assign":
                to = payload["to"]
                if "p" in to:
                    fates.add("escapes")
                else:
                    work.append(to["l"])
            elif kind == "ref":
                work.append(payload["to"]["l"])
            elif kind == "agg":
                to = payload["to"]
                rv = payload["rv"]
                # wrapped (e.g. Some(result)) and carried on
                if "p" in to:
                    fates.add("escapes")
                else:
                    work.append(to["l"])
            elif kind == "arg":
                c, ai = payload
                if c.path == TRY_BRANCH:
                    fates.add("propagated")
                elif c.is_to(*RESULT_PANICS):
                    fates.add("panics")
                elif c.is_to(*RESULT_SWALLOW):
                    fates.add("swallowed:%s" % short(c.sres))
                elif c.is_to(*RESULT_ADAPTORS) or c.is_to(*PASS_THROUGH_CALLS):
                    if c.dest and "p" not in c.dest:
                        work.append(c.dest["l"])
                else:
                    fates.add("escapes")   # handed to some other function
            elif kind == "discr":
                dl = payload["to"]["l"]
                for (sb, skind, spay) in local_uses(f, dl):
                    if skind != "switch":
                        continue
                    t = spay
                    err_t = [tb for v, tb in t["targets"] if v == 1]
                    if not err_t:
                        err_t = [t["otherwise"]]
                    ok_t = [tb for v, tb in t["targets"] if v == 0] or [t["otherwise"]]
                    err_only = [e for e in err_t if e not in ok_t]
                    if not err_only:
                        fates.add("matched")
                        continue
                    r = f.reach(err_only, cut_blocks=errs)
                    if any(rb in r for rb in f.return_blocks()):
                        fates.add("swallowed:err-arm-continues")
                    else:
                        fates.add("propagated")
            else:
                fates.add("escapes")
    return fates


# --------------------------------------------------------------------------------------
# definitely-moved locals (so that drop-flag guarded drops of moved values can be ignored)

def _place_key(l, proj):
    """Key for a whole local or a one-level field place; None for anything deeper / indirect."""
    if not proj:
        return (l, None)
    if len(proj) == 1 and proj[0].startswith("."):
        return (l, proj[0])
    if len(proj) == 2 and proj[0] == "*" and proj[1].startswith(".") and ":" in proj[1]:
        # field of a boxed / borrowed receiver: the pointer temp differs from use to use, the field (with its
        # owning ADT path) identifies the place
        return ("*", proj[1])
    return None


def _moves_and_inits(f, bb):
    """Ordered events of a block: ('move', key) / ('init', key); key = (local, None) or (local, field)."""
    ev = []

    def ops_of_rv(rv):
        k = rv["k"]
        if k in ("use", "cast", "repeat"):
            return [rv["op"]]
        if k == "bin":
            return [rv["a"], rv["b"]]
        if k == "un":
            return [rv["a"]]
        if k == "agg":
            return rv["ops"]
        return []

    def mv(op):
        if op.get("o") == "move":
            key = _place_key(op["l"], op.get("pl", {}).get("p"))
            if key is not None:
                ev.append(("move", key))
    b = f.blocks[bb]
    for st in b["stmts"]:
        if st["k"] != "assign":
            continue
        for op in ops_of_rv(st["rv"]):
            mv(op)
        key = _place_key(st["to"]["l"], st["to"].get("p"))
        if key is not None:
            ev.append(("init", key))
    t = b["term"]
    if t["k"] == "call":
        for op in t["args"]:
            mv(op)
        if t.get("dest"):
            key = _place_key(t["dest"]["l"], t["dest"].get("p"))
            if key is not None:
                ev.append(("init", key))
    elif t["k"] == "drop":
        key = _place_key(t["place"]["l"], t["place"].get("p"))
        if key is not None:
            ev.append(("move", key))   # dropped = no longer initialised
    return ev


def is_moved(state, l, proj):
    """state: frozenset of keys from must_moved_in; is the place (l, proj) definitely moved-out?"""
    if state is None:
        return True
    if (l, None) in state:
        return True
    key = _place_key(l, proj)
    return key is not None and key in state


def must_moved_in(f, success_only=True):
    """Forward must-analysis: for each block the set of locals that are definitely moved-out (uninitialised)
    at block entry, along normal edges (error exits cut when success_only).  Unreached blocks map to None."""
    attr = "_must_moved_s" if success_only else "_must_moved"
    c = getattr(f, attr, None)
    if c is not None:
        return c
    n = f.n
    cb, ce = success_cuts(f) if success_only else (set(), set())
    inn = [None] * n
    inn[0] = frozenset((l, None) for l in range(f.argc + 1, len(f.locals)))  # non-argument locals start uninitialised
    evs = [_moves_and_inits(f, b) for b in range(n)]
    work = deque([0])
    while work:
        b = work.popleft()
        cur = set(inn[b])
        for (k, key) in evs[b]:
            if k == "move":
                cur.add(key)
            else:
                cur.discard(key)
                if key[1] is None:
                    # re-initialising the whole local re-initialises its fields
                    for other in [x for x in cur if x[0] == key[0]]:
                        cur.discard(other)
        out = frozenset(cur)
        for s in f.succ(b):
            if s in cb or (b, s) in ce:
                continue
            if inn[s] is None:
                inn[s] = out
                work.append(s)
            else:
                new = inn[s] & out
                if new != inn[s]:
                    inn[s] = new
                    work.append(s)
    setattr(f, attr, inn)
    return inn


def owns_by_value(ty, names):
    """Does the type string contain one of `names` by value (not behind a reference)?"""
    for nm in names:
        start = 0
        while True:
            i = ty.find(nm, start)
            if i < 0:
                break
            start = i + 1
            end = i + len(nm)
            if end < len(ty) and (ty[end].isalnum() or ty[end] in "_:") and not ty[end:end + 3] == "::<":
                continue
            if i > 0 and (ty[i - 1].isalnum() or ty[i - 1] in "_:"):
                continue
            # walk the prefix tracking whether the current type-argument position is behind a reference
            stack = [False]
            j = 0
            while j < i:
                ch = ty[j]
                if ch in "<([":
                    stack.append(stack[-1])
                elif ch in ">)]":
                    if len(stack) > 1:
                        stack.pop()
                elif ch == ",":
                    stack[-1] = stack[-2] if len(stack) > 1 else False
                elif ch == "&" or ty[j:j + 6] in ("*const", "*mut  ") or ty[j:j + 4] == "*mut":
                    stack[-1] = True
                j += 1
            if not stack[-1]:
                return True
    return False


# --------------------------------------------------------------------------------------
# (L) lock facts: which guard classes are held where

GUARD_RX = re.compile(r"std::sync::(RwLockReadGuard|RwLockWriteGuard|MutexGuard)<'[^,]*, ([^<>]*(?:<[^<>]*>)?[^<>]*)>")


def guard_class(ty, classes):
    """classes: dict payload type string -> class name.  Returns (class, mode) if ty is (or wraps by value, e.g. in a
    Result) a guard of one of the classes; mode in read/write/lock."""
    if ty.startswith("&"):
        return None
    m = GUARD_RX.search(ty)
    if not m:
        return None
    # by value: not behind a reference
    pre = ty[:m.start()]
    if pre.rstrip().endswith("&") or re.search(r"&(?:'\w+ )?(?:mut )?$", pre):
        return None
    kind, payload = m.group(1), m.group(2).strip()
    mode = {"RwLockReadGuard": "read", "RwLockWriteGuard": "write", "MutexGuard": "lock"}[kind]
    want = ("rw" if kind.startswith("RwLock") else "mutex", payload)
    cls = classes.get(want)
    if cls is None:
        return None
    return (cls, mode)


class LockFacts:
    """Forward dataflow over guard-typed locals: which locals hold a guard at each block's terminator."""

    def __init__(self, prog, classes):
        self.prog = prog
        self.classes = classes
        self._cache = {}
        self._may_acquire = None

    def guard_locals(self, f):
        out = {}
        for i, l in enumerate(f.locals):
            g = guard_class(l["ty"], self.classes)
            if g:
                out[i] = g
        return out

    def _events(self, f, bb, gl):
        ev = []
        b = f.blocks[bb]
        for st in b["stmts"]:
            if st["k"] != "assign":
                continue
            rv = st["rv"]
            if rv["k"] == "use":
                src = _op_local(rv["op"])
                dst = st["to"]["l"] if "p" not in st["to"] else None
                if src in gl and rv["op"].get("o") == "move":
                    ev.append(("release", src))
                    if dst in gl:
                        ev.append(("hold", dst))
        return ev

    def analyse(self, f, must=True):
        key = (f.path, must)
        if key in self._cache:
            return self._cache[key]
        gl = self.guard_locals(f)
        n = f.n
        TOP = None
        inn = [TOP] * n
        init = frozenset(l for l in gl if 1 <= l <= f.argc)
        inn[0] = init
        at_term = [None] * n
        work = deque([0])
        while work:
            b = work.popleft()
            cur = set(inn[b])
            for (k, l) in self._events(f, b, gl):
                if k == "hold":
                    cur.add(l)
                else:
                    cur.discard(l)
            at_term[b] = frozenset(cur)
            t = f.blocks[b]["term"]
            out = set(cur)
            if t["k"] == "call":
                for a in t["args"]:
                    if a.get("o") == "move" and "pl" not in a and a["l"] in gl:
                        out.discard(a["l"])
                d = t.get("dest")
                if d and "p" not in d and d["l"] in gl:
                    out.add(d["l"])
            elif t["k"] == "drop":
                pl = t["place"]
                if "p" not in pl and pl["l"] in gl:
                    out.discard(pl["l"])
            out = frozenset(out)
            for s in f.succ(b):
                if inn[s] is None:
                    inn[s] = out
                    work.append(s)
                else:
                    new = (inn[s] & out) if must else (inn[s] | out)
                    if new != inn[s]:
                        inn[s] = new
                        work.append(s)
        res = (gl, at_term)
        self._cache[key] = res
        return res

    def borrowed_guards(self, f):
        """Guards the caller holds and lends for the whole call: parameters of type &Guard / &mut Guard."""
        out = set()
        for i in range(1, f.argc + 1):
            ty = f.local_ty(i)
            if ty.startswith("&"):
                inner = re.sub(r"^&(?:'\w+ )?(?:mut )?", "", ty)
                g = guard_class(inner, self.classes)
                if g:
                    out.add(g)
        return out

    def held_at(self, f, bb, must=True):
        """Set of (class, mode) held when the terminator of bb executes (arguments not yet moved)."""
        gl, at = self.analyse(f, must)
        if at[bb] is None:
            return set()
        return {gl[l] for l in at[bb]} | self.borrowed_guards(f)

    def holders_at(self, f, bb, must=True):
        gl, at = self.analyse(f, must)
        return set(at[bb] or ())

    def acquisitions(self, f):
        """Direct acquisition call sites in f: list of (call, class, mode)."""
        out = []
        for c in f.calls:
            if not c.sres:
                continue
            if c.sres in ("std::sync::RwLock::read", "std::sync::RwLock::write", "std::sync::Mutex::lock",
                          "std::sync::RwLock::try_read", "std::sync::RwLock::try_write", "std::sync::Mutex::try_lock"):
                rt = c.arg_tys[0] if c.arg_tys else ""
                m = re.search(r"std::sync::(RwLock|Mutex)<(.*)>$", rt)
                if not m:
                    continue
                want = ("rw" if m.group(1) == "RwLock" else "mutex", m.group(2).strip())
                cls = self.classes.get(want)
                if cls:
                    mode = c.sres.split("::")[-1].replace("try_", "")
                    out.append((c, cls, mode))
        return out

    def may_acquire(self):
        """fn path -> set of classes it may acquire (directly or through callees / callbacks)."""
        if self._may_acquire is None:
            direct = {}
            for p, f in self.prog.fns.items():
                s = {cls for (_c, cls, _m) in self.acquisitions(f)}
                if s:
                    direct[p] = s
            res = {p: set(s) for p, s in direct.items()}
            rev = self.prog.callers()
            work = deque(direct.keys())
            while work:
                p = work.popleft()
                for q in rev.get(p, ()):
                    cur = res.setdefault(q, set())
                    new = res[p] - cur
                    if new:
                        cur |= new
                        work.append(q)
            self._may_acquire = res
        return self._may_acquire

    def call_may_acquire(self, c):
        out = set()
        for (cc, cls, _m) in self.acquisitions(c.fn):
            if cc.bb == c.bb:
                out.add(cls)
        ma = self.may_acquire()
        for t in self.prog.may_targets(c):
            out |= ma.get(t, set())
        return out


# --------------------------------------------------------------------------------------
# structured (HIR) path conditions

class HirSite:
    """A node of interest together with the conditions guarding it and the statements that precede it."""
    __slots__ = ("node", "guards", "before", "loops")

    def __init__(self, node, guards, before, loops):
        self.node = node
        self.guards = guards    # list of (kind, text, polarity/pattern, node)
        self.before = before    # list of nodes executed before on the structured path (outermost first)
        self.loops = loops      # number of enclosing loops

    def guard_texts(self):
        out = []
        for (k, text, pol, _n) in self.guards:
            if k == "if":
                out.append(("" if pol else "!") + text)
            elif k == "match":
                out.append("%s ~ %s" % (text, pol))
            elif k == "iflet":
                out.append(("" if pol else "!") + "let %s" % text)
            else:
                out.append("%s:%s" % (k, text))
        return out


def split_and(node):
    """Conjuncts of a condition expression (a && b && c)."""
    if isinstance(node, dict) and node.get("k") == "bin" and node.get("op") == "&&":
        return split_and(node["l"]) + split_and(node["r"])
    return [node]


def hir_sites(root, pred, into_closures=True):
    """Yield HirSite for every node satisfying pred, with structural guards."""
    out = []

    def walk(n, guards, before, loops):
        if isinstance(n, list):
            for x in n:
                walk(x, guards, before, loops)
            return
        if not isinstance(n, dict):
            return
        if pred(n):
            out.append(HirSite(n, list(guards), list(before), loops))
        k = n.get("k")
        if k == "block":
            seq = list(before)
            for st in n.get("s", []):
                walk(st, guards, seq, loops)
                seq = seq + [st]
            if "e" in n:
                walk(n["e"], guards, seq, loops)
        elif k == "blockx":
            walk(n["b"], guards, before, loops)
        elif k == "if":
            c = n["c"]
            conj = split_and(c)
            walk(c, guards, before, loops)
            g_then = list(guards)
            for cj in conj:
                if cj.get("k") == "letx":
                    g_then.append(("iflet", "%s = %s" % (pat_str(cj["pat"]), hir_expr_str(cj["init"])), True, cj))
                else:
                    g_then.append(("if", hir_expr_str(cj), True, cj))
            walk(n["t"], g_then, before, loops)
            if "e" in n:
                if len(conj) == 1:
                    cj = conj[0]
                    if cj.get("k") == "letx":
                        g_else = guards + [("iflet", "%s = %s" % (pat_str(cj["pat"]), hir_expr_str(cj["init"])), False, cj)]
                    else:
                        g_else = guards + [("if", hir_expr_str(cj), False, cj)]
                else:
                    g_else = guards + [("if", hir_expr_str(c), False, c)]
                walk(n["e"], g_else, before, loops)
        elif k == "match":
            walk(n["e"], guards, before, loops)
            for arm in n["arms"]:
                g = guards + [("match", hir_expr_str(n["e"]), pat_str(arm["pat"]), arm)]
                if "g" in arm:
                    g = g + [("if", hir_expr_str(arm["g"]), True, arm["g"])]
                walk(arm["b"], g, before, loops)
        elif k == "loop":
            walk(n["b"], guards, before, loops + 1)
        elif k == "for":
            walk(n["iter"], guards, before, loops)
            walk(n["b"], guards + [("for", pat_str(n["pat"]), hir_expr_str(n["iter"]), n)], before, loops + 1)
        elif k == "let":
            if "init" in n:
                walk(n["init"], guards, before, loops)
            if "else" in n:
                walk(n["else"], guards + [("iflet", "%s = %s" % (pat_str(n["pat"]), hir_expr_str(n.get("init"))), False, n)],
                     before, loops)
        elif k == "closure":
            if into_closures:
                walk(n["b"], guards + [("closure", n.get("def", ""), True, n)], before, loops)
        else:
            for kk, v in n.items():
                if kk in ("pat", "params"):
                    continue
                if isinstance(v, (dict, list)):
                    walk(v, guards, before, loops)
    walk(root, [], [], 0)
    return out


# --------------------------------------------------------------------------------------
# (G) codec skeletons and (A) argument-name agreement (typed HIR)

IO_WIDTH = [
    (re.compile(r"(write|read)_u8$"), "u8"), (re.compile(r"(write|read)_u16$"), "u16"),
    (re.compile(r"(write|read)_u32$"), "u32"), (re.compile(r"(write|read)_u64$"), "u64"),
    (re.compile(r"(write|read)_u128$"), "u128"), (re.compile(r"(write|read)_u16_varint$"), "v16"),
    (re.compile(r"(write|read)_u32_varint$"), "v32"), (re.compile(r"(write|read)_u64_varint$"), "v64"),
    (re.compile(r"^write_all$|^read_exact$|^from_reader$|^seek_relative$"), "bytes"),
]
HINT_SKIP_METHODS = ("clone", "into", "as_ref", "borrow", "to_owned", "unwrap", "expect", "into_u128", "to_le_bytes",
                     "as_bytes", "deref", "copied", "cloned", "get")


def io_hint(node):
    """Terminal identifier of a written expression / the name a read value is bound to."""
    while isinstance(node, dict):
        k = node.get("k")
        if k == "var":
            return node["n"]
        if k == "field":
            return node["n"]
        if k in ("ref", "un", "cast", "try"):
            node = node.get("e")
            continue
        if k == "mcall":
            if node.get("m") in HINT_SKIP_METHODS:
                node = node.get("r")
                continue
            return node.get("m")
        if k == "call":
            p = node.get("p") or ""
            tail = p.split("::")[-1]
            if tail in ("from", "from_raw", "into") and node["a"]:
                node = node["a"][0]
                continue
            return tail
        if k == "lit":
            return "lit:%s" % node.get("v", node.get("s", node.get("bs", "")))
        if k == "path":
            return node["p"].split("::")[-1]
        if k == "index":
            node = node.get("e")
            continue
        return None
    return None


def codec_skeleton(body, side):
    """Ordered I/O skeleton of an encoder ('w') or decoder ('r'): tokens (width, hint) with loop / branch markers."""
    toks = []

    def width_of(m):
        for rx, w in IO_WIDTH:
            if rx.search(m):
                return w
        return None

    def walk(n, bind=None):
        if isinstance(n, list):
            for x in n:
                walk(x, bind)
            return
        if not isinstance(n, dict):
            return
        k = n.get("k")
        if k == "let":
            name = n["pat"]["n"] if n["pat"].get("k") == "bind" else None
            if "init" in n:
                walk(n["init"], name)
            if "else" in n:
                walk(n["else"])
            return
        if k in ("for", "loop"):
            toks.append(("loop{", None))
            if k == "for":
                walk(n["iter"])
            walk(n["b"])
            toks.append(("}", None))
            return
        if k == "closure":
            return
        if k == "macro":
            return
        if k in ("mcall", "call"):
            m = n.get("m") or (n.get("p") or "").split("::")[-1]
            w = width_of(m)
            is_w = m.startswith("write")
            is_r = m.startswith("read") or m in ("from_reader", "seek_relative")
            if w == "bytes" and k == "call" and not (n.get("p") or "").endswith("::from_reader"):
                w = None   # a free function named read_exact (pread helper), not a step of the stream codec
            if w and ((side == "w" and is_w) or (side == "r" and is_r)):
                # the receiver chain may open a section (toc.section(b"x")?.buf_reader(..)?.read_u8())
                if k == "mcall":
                    walk(n["r"], None)
                if side == "w":
                    arg = n["a"][-1] if n["a"] else None
                    toks.append((w, io_hint(arg)))
                else:
                    toks.append((w, bind))
                return
            # archive sections: writer.start("name") / toc.section(b"name")
            if (side == "w" and m == "start") or (side == "r" and m == "section"):
                lit = n["a"][0] if n.get("a") else None
                while isinstance(lit, dict) and lit.get("k") in ("ref", "un"):
                    lit = lit.get("e")
                if isinstance(lit, dict) and lit.get("k") == "lit":
                    toks.append(("section", lit.get("s", lit.get("bs"))))
            # nested codec calls
            if m in ("encode_into", "decode_from", "encode_into_vec") and ((side == "w") == m.startswith("encode")):
                toks.append(("codec", None))
            if k == "mcall":
                walk(n["r"], bind)
            walk(n.get("a", []), None)
            if "f" in n:
                walk(n["f"], None)
            return
        if k == "if":
            walk(n["c"])
            toks.append(("if{", None))
            walk(n["t"])
            if "e" in n:
                toks.append(("}else{", None))
                walk(n["e"])
            toks.append(("}", None))
            return
        for kk, v in n.items():
            if kk in ("pat", "params"):
                continue
            if isinstance(v, (dict, list)):
                walk(v, bind if kk in ("e", "r", "init", "b") else None)
    walk(body)
    return toks


def compare_skeletons(enc, dec, vocab=(), ignore_branches=True):
    """Returns (ok, message).  Widths and loop structure must agree; hints must agree where both sides name a
    member of `vocab` (the confusable same-struct field names)."""
    def strip(t):
        return [x for x in t if not (ignore_branches and x[0] in ("if{", "}else{"))]

    def norm(t):
        out = []
        depth_if = 0
        for x in t:
            if x[0] == "if{":
                depth_if += 1
                continue
            if x[0] == "}else{":
                continue
            out.append(x)
        return out
    # remove if-markers and their matching '}' conservatively: rebuild with a stack
    def clean(t):
        out = []
        stack = []
        for x in t:
            if x[0] in ("loop{", "if{"):
                stack.append(x[0])
                if x[0] == "loop{":
                    out.append(x)
            elif x[0] == "}else{":
                continue
            elif x[0] == "}":
                if stack and stack.pop() == "loop{":
                    out.append(x)
            else:
                out.append(x)
        return out
    e, d = clean(enc), clean(dec)
    ew = [x[0] for x in e]
    dw = [x[0] for x in d]
    if ew != dw:
        return False, "I/O shapes differ: writer %s vs reader %s" % (ew, dw)
    for (w, he), (_w, hd) in zip(e, d):
        if he in vocab and hd in vocab and he != hd:
            return False, "field order differs: writer puts `%s` where the reader takes `%s` (%s)" % (he, hd, w)
    return True, "%d I/O steps agree" % len([x for x in ew if x not in ("loop{", "}")])


def split_sections(toks):
    """dict section name -> tokens (tokens before the first section marker go under '')."""
    out = {"": []}
    cur = ""
    for t in toks:
        if t[0] == "section":
            cur = t[1]
            out.setdefault(cur, [])
        else:
            out[cur].append(t)
    return out


def fn_param_names(prog, path):
    """Parameter binding names of a local function (from HIR), including `self`."""
    h = prog.hir.get(path)
    if h is None:
        return None
    out = []
    for p in h["params"]:
        out.append(p["n"] if p.get("k") == "bind" else None)
    return out


# --------------------------------------------------------------------------------------
# (G) mirror symmetry of double-ended iterators

MIRROR_WORDS = [("lo_consumer", "hi_consumer"), ("lo_data_block", "hi_data_block"), ("lo_reader", "hi_reader"),
                ("lo_offset", "hi_offset"), ("initialize_lo", "initialize_hi"), ("next_back", "next"), ("lo", "hi"),
                ("front", "back"), ("peek_back", "peek"), ("pop_max", "pop_min"), ("first", "last")]


def mirror_tok(t):
    out = []
    for part in re.split(r"(\W+)", t):
        rep = part
        for a, b in MIRROR_WORDS:
            if part == a:
                rep = b
                break
            if part == b:
                rep = a
                break
        out.append(rep)
    return "".join(out)


def _recv_root(n):
    k = n.get("k") if isinstance(n, dict) else None
    if k == "field":
        base = _recv_root(n["e"])
        return base + "." + n["n"] if base == "self" else base
    if k == "var":
        return "self" if n["n"] == "self" else "local"
    if k in ("ref", "un", "try"):
        return _recv_root(n["e"])
    if k == "mcall":
        return _recv_root(n["r"])
    return "expr"


def event_skeleton(n, out=None):
    """Ordered events of a body: method calls (by receiver root: self.<field> / local), free calls, branches, returns and
    stores into self fields.  Local names and literals do not appear."""
    if out is None:
        out = []
    if isinstance(n, list):
        for x in n:
            event_skeleton(x, out)
        return out
    if not isinstance(n, dict):
        return out
    k = n.get("k")
    if k == "mcall":
        event_skeleton(n["r"], out)
        for a in n["a"]:
            event_skeleton(a, out)
        out.append("call:%s.%s" % (_recv_root(n["r"]), n["m"]))
    elif k == "call":
        for a in n["a"]:
            event_skeleton(a, out)
        out.append("fn:%s" % ((n.get("p") or "?").split("::")[-1]))
    elif k == "if":
        event_skeleton(n["c"], out)
        out.append("if{")
        event_skeleton(n.get("t"), out)
        if n.get("e") is not None:
            out.append("}else{")
            event_skeleton(n["e"], out)
        out.append("}")
    elif k == "letx":
        # `if let PAT = EXPR`: which place is looked at matters (self.lo_consumer vs self.hi_consumer)
        event_skeleton(n.get("init"), out)
        out.append("letx:%s" % _recv_root(n.get("init")))
    elif k == "let":
        if "init" in n:
            event_skeleton(n["init"], out)
        if "else" in n:
            out.append("else{")
            event_skeleton(n["else"], out)
            out.append("}")
    elif k == "ret":
        if n.get("e") is not None:
            event_skeleton(n["e"], out)
        out.append("ret")
    elif k == "assign":
        event_skeleton(n["r"], out)
        out.append("set:%s" % _recv_root(n["l"]))
    elif k == "closure":
        pass
    else:
        for key, v in n.items():
            if key not in ("k", "ln") and isinstance(v, (dict, list)):
                event_skeleton(v, out)
    return out


def normalise_events(toks):
    """Order-insensitive where order cannot matter: runs of consecutive stores, and consecutive sibling blocks that apply
    the two scan bounds (`if let Some(b) = lo { it.seek_lower(b) }` / the same for hi): both directions apply both bounds,
    in whatever order."""
    def parse(i):
        items = []
        while i < len(toks):
            t = toks[i]
            if t in ("if{", "else{"):
                then, i = parse(i + 1)
                els = None
                if i < len(toks) and toks[i] == "}else{":
                    els, i = parse(i + 1)
                items.append((t, then, els))
                i += 1      # the closing }
            elif t in ("}", "}else{"):
                return items, i
            else:
                items.append(t)
                i += 1
        return items, i

    def flat(items):
        out = []
        for it in items:
            if isinstance(it, tuple):
                out.append(it[0])
                out += flat(it[1])
                if it[2] is not None:
                    out.append("}else{")
                    out += flat(it[2])
                out.append("}")
            else:
                out.append(it)
        return out

    def norm(items):
        items = [(it[0], norm(it[1]), norm(it[2]) if it[2] is not None else None) if isinstance(it, tuple) else it for it in items]
        # units: [letx:*]? + if-block mentioning a seek
        units = []
        i = 0
        while i < len(items):
            it = items[i]
            if isinstance(it, str) and it.startswith("letx:") and i + 1 < len(items) and isinstance(items[i + 1], tuple) \
                    and any("seek_" in x for x in flat([items[i + 1]])):
                units.append(("U", [it, items[i + 1]]))
                i += 2
            elif isinstance(it, tuple) and any("seek_" in x for x in flat([it])) and len(flat([it])) <= 12:
                units.append(("U", [it]))
                i += 1
            else:
                units.append(("X", [it]))
                i += 1
        out = []
        i = 0
        while i < len(units):
            if units[i][0] == "U":
                j = i
                while j < len(units) and units[j][0] == "U":
                    j += 1
                # which bound is which is not a matter of direction (C03.f checks that both are applied): canonical names
                canon = [[re.sub(r"seek_(lower|upper)", "seek_BOUND", re.sub(r"self\.(lo|hi)$", "self.BOUND", x)) for x in flat(u[1])]
                         for u in units[i:j]]
                for cu in sorted(canon):
                    out += cu
                i = j
            else:
                out += units[i][1]
                i += 1
        # runs of stores
        res = []
        i = 0
        while i < len(out):
            if isinstance(out[i], str) and out[i].startswith("set:"):
                j = i
                while j < len(out) and isinstance(out[j], str) and out[j].startswith("set:"):
                    j += 1
                res += sorted(out[i:j])
                i = j
            else:
                res.append(out[i])
                i += 1
        return res
    tree, _ = parse(0)
    return flat(norm(tree))


def mirror_diff(prog, ty):
    """None if `next` mirrored equals `next_back` for the type, else a short description of the first difference."""
    a = prog.hir.get("<%s as std::iter::Iterator>::next" % ty)
    b = prog.hir.get("<%s as std::iter::DoubleEndedIterator>::next_back" % ty)
    if a is None or b is None:
        return "missing"
    sa = normalise_events([mirror_tok(t) for t in event_skeleton(a["body"])])
    sb = normalise_events(event_skeleton(b["body"]))
    if sa == sb:
        return None
    import difflib
    d = [l for l in difflib.unified_diff(sa, sb, lineterm="", n=0) if not l.startswith(("---", "+++", "@@"))]
    return "; ".join(d[:6])
