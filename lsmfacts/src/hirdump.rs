//! Typed HIR expression trees (method calls resolved through typeck results).

use crate::json::J;
use crate::mirdump::{path_of, span_info, ty_str};
use rustc_hir as hir;
use rustc_hir::def::{DefKind, Res};
use rustc_hir::{Expr, ExprKind, MatchSource, Pat, PatKind, QPath, StmtKind};
use rustc_middle::ty::{TyCtxt, TypeckResults};
use rustc_span::def_id::LocalDefId;

struct Cx<'a, 'tcx> {
    tcx: TyCtxt<'tcx>,
    tr: &'a TypeckResults<'tcx>,
}

pub fn dump_hir(tcx: TyCtxt<'_>, j: &mut J) {
    j.key("hir");
    j.arr_open();
    let mut owners: Vec<LocalDefId> = tcx.hir_body_owners().collect();
    owners.sort_by_key(|k| tcx.def_path_hash(k.to_def_id()));
    for ldid in owners {
        let did = ldid.to_def_id();
        if !matches!(tcx.def_kind(did), DefKind::Fn | DefKind::AssocFn) {
            continue;
        }
        let body = tcx.hir_body_owned_by(ldid);
        let tr = tcx.typeck(ldid);
        let cx = Cx { tcx, tr };
        j.obj_open();
        j.kstr("fn", &path_of(tcx, did));
        j.key("params");
        j.arr_open();
        for p in body.params {
            cx.pat(j, p.pat);
        }
        j.arr_close();
        j.key("body");
        cx.expr(j, body.value);
        j.obj_close();
    }
    j.arr_close();
}

fn normalize_prelude(p: String) -> String {
    match p.as_str() {
        "std::prelude::v1::Ok" => "std::result::Result::Ok".to_string(),
        "std::prelude::v1::Err" => "std::result::Result::Err".to_string(),
        "std::prelude::v1::Some" => "std::option::Option::Some".to_string(),
        "std::prelude::v1::None" => "std::option::Option::None".to_string(),
        _ => p,
    }
}

const LOG_MACROS: &[&str] = &[
    "log::trace", "log::debug", "log::info", "log::warn", "log::error", "log::log", "trace", "debug",
    "info", "warn", "error", "log", "debug_assert", "debug_assert_eq", "debug_assert_ne",
];

impl<'a, 'tcx> Cx<'a, 'tcx> {
    fn outer_macro(&self, span: rustc_span::Span) -> Option<String> {
        if !span.from_expansion() {
            return None;
        }
        let mut last = None;
        for d in span.macro_backtrace() {
            if let rustc_span::ExpnKind::Macro(_, name) = d.kind {
                last = Some(name.to_string());
            }
        }
        last
    }

    fn qpath(&self, qp: &QPath<'_>, id: hir::HirId) -> (String, String) {
        let res = self.tr.qpath_res(qp, id);
        self.res(res)
    }

    fn res(&self, res: Res) -> (String, String) {
        match res {
            Res::Def(kind, did) => {
                let dk = match kind {
                    DefKind::Ctor(..) => "ctor",
                    DefKind::Const { .. } | DefKind::AssocConst { .. } => "const",
                    DefKind::Fn => "fn",
                    DefKind::AssocFn => "assoc",
                    DefKind::Static { .. } => "static",
                    DefKind::Variant => "variant",
                    DefKind::Struct => "struct",
                    DefKind::Enum => "enum",
                    _ => "def",
                };
                let mut p = path_of(self.tcx, did);
                if matches!(kind, DefKind::Ctor(..)) {
                    // path of a ctor is the variant/struct path
                    p = path_of(self.tcx, self.tcx.parent(did));
                }
                (dk.to_string(), normalize_prelude(p))
            }
            Res::Local(id) => ("var".to_string(), self.tcx.hir_name(id).to_string()),
            Res::SelfTyAlias { .. } | Res::SelfTyParam { .. } => ("self_ty".into(), "Self".into()),
            Res::SelfCtor(_) => ("self_ctor".into(), "Self".into()),
            Res::PrimTy(p) => ("prim".into(), p.name_str().to_string()),
            _ => ("other".into(), String::new()),
        }
    }

    fn ln(&self, j: &mut J, span: rustc_span::Span) {
        let (_f, l, _) = span_info(self.tcx, span);
        j.kuint("ln", l);
    }

    fn lit(&self, j: &mut J, lit: &hir::Lit, negated: bool) {
        use rustc_ast::LitKind;
        j.kstr("k", "lit");
        match &lit.node {
            LitKind::Str(s, _) => j.kstr("s", s.as_str()),
            LitKind::ByteStr(b, _) | LitKind::CStr(b, _) => {
                j.kstr("bs", &String::from_utf8_lossy(b.as_byte_str()))
            }
            LitKind::Byte(b) => j.kstr("v", &b.to_string()),
            LitKind::Char(c) => j.kstr("c", &c.to_string()),
            LitKind::Int(v, _) => {
                j.kstr("v", &format!("{}{}", if negated { "-" } else { "" }, v.get()))
            }
            LitKind::Float(s, _) => j.kstr("f", s.as_str()),
            LitKind::Bool(b) => j.kstr("v", if *b { "true" } else { "false" }),
            LitKind::Err(_) => j.kstr("v", "err"),
        }
    }

    fn block(&self, j: &mut J, b: &hir::Block<'_>) {
        j.obj_open();
        j.kstr("k", "block");
        j.key("s");
        j.arr_open();
        for st in b.stmts {
            match &st.kind {
                StmtKind::Let(l) => {
                    j.obj_open();
                    j.kstr("k", "let");
                    self.ln(j, st.span);
                    j.key("pat");
                    self.pat(j, l.pat);
                    if let Some(init) = l.init {
                        j.key("init");
                        self.expr(j, init);
                    }
                    if let Some(els) = l.els {
                        j.key("else");
                        self.block(j, els);
                    }
                    j.obj_close();
                }
                StmtKind::Item(_) => {}
                StmtKind::Expr(e) | StmtKind::Semi(e) => self.expr(j, e),
            }
        }
        j.arr_close();
        if let Some(e) = b.expr {
            j.key("e");
            self.expr(j, e);
        }
        j.obj_close();
    }

    fn pat(&self, j: &mut J, p: &Pat<'_>) {
        j.obj_open();
        match &p.kind {
            PatKind::Wild | PatKind::Missing | PatKind::Never => j.kstr("k", "wild"),
            PatKind::Binding(mode, _id, ident, sub) => {
                j.kstr("k", "bind");
                j.kstr("n", ident.as_str());
                j.kstr("by", &format!("{:?}", mode.0).to_lowercase().chars().take(12).collect::<String>());
                if let Some(s) = sub {
                    j.key("sub");
                    self.pat(j, s);
                }
            }
            PatKind::Struct(qp, fields, rest) => {
                j.kstr("k", "pstruct");
                let (_dk, path) = self.qpath(qp, p.hir_id);
                j.kstr("p", &path);
                j.key("f");
                j.arr_open();
                for f in *fields {
                    j.obj_open();
                    j.kstr("n", f.ident.as_str());
                    j.key("pat");
                    self.pat(j, f.pat);
                    j.obj_close();
                }
                j.arr_close();
                j.kbool("rest", rest.is_some());
            }
            PatKind::TupleStruct(qp, pats, _) => {
                j.kstr("k", "pts");
                let (_dk, path) = self.qpath(qp, p.hir_id);
                j.kstr("p", &path);
                j.key("a");
                j.arr_open();
                for s in *pats {
                    self.pat(j, s);
                }
                j.arr_close();
            }
            PatKind::Or(pats) => {
                j.kstr("k", "por");
                j.key("a");
                j.arr_open();
                for s in *pats {
                    self.pat(j, s);
                }
                j.arr_close();
            }
            PatKind::Tuple(pats, _) => {
                j.kstr("k", "ptuple");
                j.key("a");
                j.arr_open();
                for s in *pats {
                    self.pat(j, s);
                }
                j.arr_close();
            }
            PatKind::Box(s) | PatKind::Deref(s) | PatKind::Ref(s, ..) => {
                j.kstr("k", "pref");
                j.key("pat");
                self.pat(j, s);
            }
            PatKind::Expr(pe) => match &pe.kind {
                hir::PatExprKind::Lit { lit, negated } => {
                    self.lit(j, lit, *negated);
                }
                hir::PatExprKind::Path(qp) => {
                    j.kstr("k", "ppath");
                    let (dk, path) = self.qpath(qp, pe.hir_id);
                    j.kstr("p", &path);
                    j.kstr("dk", &dk);
                }
            },
            PatKind::Guard(s, g) => {
                j.kstr("k", "pguard");
                j.key("pat");
                self.pat(j, s);
                j.key("g");
                self.expr(j, g);
            }
            PatKind::Range(..) => j.kstr("k", "prange"),
            PatKind::Slice(a, m, b) => {
                j.kstr("k", "pslice");
                j.key("a");
                j.arr_open();
                for s in a.iter().chain(m.iter().copied()).chain(b.iter()) {
                    self.pat(j, s);
                }
                j.arr_close();
            }
            PatKind::Err(_) => j.kstr("k", "perr"),
        }
        j.obj_close();
    }

    fn exprs(&self, j: &mut J, key: &str, es: &[Expr<'_>]) {
        j.key(key);
        j.arr_open();
        for e in es {
            self.expr(j, e);
        }
        j.arr_close();
    }

    fn try_for_loop(&self, j: &mut J, e: &Expr<'_>) -> bool {
        // match IntoIterator::into_iter(<iter>) { mut iter => loop { match Iterator::next(&mut iter)
        //   { None => break, Some(<pat>) => <body> } } }
        let ExprKind::Match(scrut, arms, MatchSource::ForLoopDesugar) = &e.kind else {
            return false;
        };
        let ExprKind::Call(_, args) = &scrut.kind else { return false };
        let Some(iter) = args.first() else { return false };
        let Some(arm) = arms.first() else { return false };
        let ExprKind::Loop(blk, ..) = &arm.body.kind else { return false };
        let inner = if let Some(x) = blk.expr {
            x
        } else if let Some(st) = blk.stmts.first() {
            match &st.kind {
                StmtKind::Expr(x) | StmtKind::Semi(x) => *x,
                _ => return false,
            }
        } else {
            return false;
        };
        let ExprKind::Match(_, inner_arms, _) = &inner.kind else { return false };
        if inner_arms.len() != 2 {
            return false;
        }
        let some_arm = &inner_arms[1];
        let item_pat: &Pat<'_> = match &some_arm.pat.kind {
            PatKind::TupleStruct(_, pats, _) => {
                let Some(p) = pats.first() else { return false };
                p
            }
            PatKind::Struct(_, fields, _) => {
                let Some(f) = fields.first() else { return false };
                f.pat
            }
            _ => return false,
        };
        j.obj_open();
        j.kstr("k", "for");
        self.ln(j, e.span);
        j.key("pat");
        self.pat(j, item_pat);
        j.key("iter");
        self.expr(j, iter);
        j.key("b");
        self.expr(j, some_arm.body);
        j.obj_close();
        true
    }

    fn expr(&self, j: &mut J, e: &Expr<'_>) {
        // collapse logging / debug-assert macro expansions
        if let Some(m) = self.outer_macro(e.span) {
            if LOG_MACROS.contains(&m.as_str()) {
                j.obj_open();
                j.kstr("k", "macro");
                j.kstr("name", &m);
                self.ln(j, e.span);
                j.obj_close();
                return;
            }
        }
        match &e.kind {
            ExprKind::DropTemps(inner) | ExprKind::Use(inner, _) | ExprKind::Type(inner, _) => {
                self.expr(j, inner);
                return;
            }
            ExprKind::Match(_, _, MatchSource::ForLoopDesugar) => {
                if self.try_for_loop(j, e) {
                    return;
                }
            }
            _ => {}
        }
        j.obj_open();
        match &e.kind {
            ExprKind::ConstBlock(_) => j.kstr("k", "constblock"),
            ExprKind::Array(es) => {
                j.kstr("k", "array");
                self.exprs(j, "a", es);
            }
            ExprKind::Call(f, args) => {
                j.kstr("k", "call");
                self.ln(j, e.span);
                if let ExprKind::Path(qp) = &f.kind {
                    let (dk, p) = self.qpath(qp, f.hir_id);
                    j.kstr("p", &p);
                    j.kstr("dk", &dk);
                } else {
                    j.key("f");
                    self.expr(j, f);
                }
                self.exprs(j, "a", args);
            }
            ExprKind::MethodCall(seg, recv, args, _) => {
                j.kstr("k", "mcall");
                self.ln(j, e.span);
                j.kstr("m", seg.ident.as_str());
                if let Some(d) = self.tr.type_dependent_def_id(e.hir_id) {
                    j.kstr("p", &path_of(self.tcx, d));
                }
                j.kstr("rt", &ty_str(self.tr.expr_ty(recv)));
                j.key("r");
                self.expr(j, recv);
                self.exprs(j, "a", args);
            }
            ExprKind::Tup(es) => {
                j.kstr("k", "tuple");
                self.exprs(j, "a", es);
            }
            ExprKind::Binary(op, l, r) => {
                j.kstr("k", "bin");
                self.ln(j, e.span);
                j.kstr("op", op.node.as_str());
                j.kstr("lt", &ty_str(self.tr.expr_ty(l)));
                j.key("l");
                self.expr(j, l);
                j.key("r");
                self.expr(j, r);
            }
            ExprKind::Unary(op, a) => {
                j.kstr("k", "un");
                j.kstr("op", op.as_str());
                j.key("e");
                self.expr(j, a);
            }
            ExprKind::Lit(l) => self.lit(j, l, false),
            ExprKind::Cast(a, _) => {
                j.kstr("k", "cast");
                j.kstr("t", &ty_str(self.tr.expr_ty(e)));
                j.key("e");
                self.expr(j, a);
            }
            ExprKind::Let(l) => {
                j.kstr("k", "letx");
                j.key("pat");
                self.pat(j, l.pat);
                j.key("init");
                self.expr(j, l.init);
            }
            ExprKind::If(c, t, el) => {
                j.kstr("k", "if");
                self.ln(j, e.span);
                j.key("c");
                self.expr(j, c);
                j.key("t");
                self.expr(j, t);
                if let Some(el) = el {
                    j.key("e");
                    self.expr(j, el);
                }
            }
            ExprKind::Loop(b, _, src, _) => {
                j.kstr("k", "loop");
                j.kstr("src", &format!("{:?}", src));
                self.ln(j, e.span);
                j.key("b");
                self.block(j, b);
            }
            ExprKind::Match(scrut, arms, src) => {
                if matches!(src, MatchSource::TryDesugar(_)) {
                    j.kstr("k", "try");
                    self.ln(j, e.span);
                    // scrutinee is Try::branch(<inner>)
                    if let ExprKind::Call(_, args) = &scrut.kind {
                        if let Some(inner) = args.first() {
                            j.key("e");
                            self.expr(j, inner);
                        }
                    }
                } else {
                    j.kstr("k", "match");
                    self.ln(j, e.span);
                    j.key("e");
                    self.expr(j, scrut);
                    j.key("arms");
                    j.arr_open();
                    for arm in *arms {
                        j.obj_open();
                        self.ln(j, arm.span);
                        j.key("pat");
                        self.pat(j, arm.pat);
                        if let Some(g) = arm.guard {
                            j.key("g");
                            self.expr(j, g);
                        }
                        j.key("b");
                        self.expr(j, arm.body);
                        j.obj_close();
                    }
                    j.arr_close();
                }
            }
            ExprKind::Closure(c) => {
                j.kstr("k", "closure");
                self.ln(j, e.span);
                j.kstr("def", &path_of(self.tcx, c.def_id.to_def_id()));
                let body = self.tcx.hir_body(c.body);
                j.key("params");
                j.arr_open();
                for p in body.params {
                    self.pat(j, p.pat);
                }
                j.arr_close();
                j.key("b");
                self.expr(j, body.value);
            }
            ExprKind::Block(b, _) => {
                j.kstr("k", "blockx");
                j.key("b");
                self.block(j, b);
            }
            ExprKind::Assign(l, r, _) => {
                j.kstr("k", "assign");
                self.ln(j, e.span);
                j.key("l");
                self.expr(j, l);
                j.key("r");
                self.expr(j, r);
            }
            ExprKind::AssignOp(op, l, r) => {
                j.kstr("k", "assignop");
                self.ln(j, e.span);
                j.kstr("op", op.node.as_str());
                j.key("l");
                self.expr(j, l);
                j.key("r");
                self.expr(j, r);
            }
            ExprKind::Field(b, ident) => {
                j.kstr("k", "field");
                j.kstr("n", ident.as_str());
                j.key("e");
                self.expr(j, b);
            }
            ExprKind::Index(b, i, _) => {
                j.kstr("k", "index");
                j.key("e");
                self.expr(j, b);
                j.key("i");
                self.expr(j, i);
            }
            ExprKind::Path(qp) => {
                let (dk, p) = self.qpath(qp, e.hir_id);
                if dk == "var" {
                    j.kstr("k", "var");
                    j.kstr("n", &p);
                } else {
                    j.kstr("k", "path");
                    j.kstr("p", &p);
                    j.kstr("dk", &dk);
                }
            }
            ExprKind::AddrOf(_, m, a) => {
                j.kstr("k", "ref");
                j.kbool("mut", m.is_mut());
                j.key("e");
                self.expr(j, a);
            }
            ExprKind::Break(_, v) => {
                j.kstr("k", "break");
                self.ln(j, e.span);
                if let Some(v) = v {
                    j.key("e");
                    self.expr(j, v);
                }
            }
            ExprKind::Continue(_) => {
                j.kstr("k", "continue");
                self.ln(j, e.span);
            }
            ExprKind::Ret(v) => {
                j.kstr("k", "ret");
                self.ln(j, e.span);
                if let Some(v) = v {
                    j.key("e");
                    self.expr(j, v);
                }
            }
            ExprKind::Struct(qp, fields, tail) => {
                j.kstr("k", "struct");
                self.ln(j, e.span);
                let (_dk, mut p) = self.qpath(qp, e.hir_id);
                if p == "Self" || p.is_empty() {
                    p = ty_str(self.tr.expr_ty(e));
                }
                j.kstr("p", &p);
                j.key("f");
                j.arr_open();
                for f in *fields {
                    j.obj_open();
                    j.kstr("n", f.ident.as_str());
                    j.key("e");
                    self.expr(j, f.expr);
                    j.obj_close();
                }
                j.arr_close();
                if let hir::StructTailExpr::Base(b) = tail {
                    j.key("base");
                    self.expr(j, b);
                }
            }
            ExprKind::Repeat(a, _) => {
                j.kstr("k", "repeat");
                j.key("e");
                self.expr(j, a);
            }
            ExprKind::Become(a) | ExprKind::Yield(a, _) | ExprKind::UnsafeBinderCast(_, a, _) => {
                j.kstr("k", "other");
                j.key("e");
                self.expr(j, a);
            }
            ExprKind::DropTemps(_) | ExprKind::Use(..) | ExprKind::Type(..) => unreachable!(),
            ExprKind::InlineAsm(_) | ExprKind::OffsetOf(..) | ExprKind::Err(_) => {
                j.kstr("k", "other");
            }
        }
        j.obj_close();
    }
}
