//! lsmfacts — rustc_private fact extractor for the /verif static checker.
//!
//! Used as RUSTC_WORKSPACE_WRAPPER under `cargo +nightly check`: argv[1] is the real rustc
//! path (dropped).  For the crate(s) named in LSMFACTS_CRATES (comma separated, default
//! "lsm_tree") it writes one JSON fact file to $LSMFACTS_OUT/<crate>.facts.json after
//! analysis; every other invocation behaves like plain rustc.
#![feature(rustc_private)]
#![allow(clippy::all)]

extern crate rustc_abi;
extern crate rustc_ast;
extern crate rustc_driver;
extern crate rustc_hir;
extern crate rustc_interface;
extern crate rustc_middle;
extern crate rustc_span;

mod hirdump;
mod json;
mod mirdump;

use rustc_driver::Compilation;
use rustc_interface::interface::Compiler;
use rustc_middle::ty::TyCtxt;

struct Cb;

impl rustc_driver::Callbacks for Cb {
    fn after_analysis<'tcx>(&mut self, _c: &Compiler, tcx: TyCtxt<'tcx>) -> Compilation {
        let krate = tcx.crate_name(rustc_span::def_id::LOCAL_CRATE).to_string();
        let wanted = std::env::var("LSMFACTS_CRATES").unwrap_or_else(|_| "lsm_tree".to_string());
        if !wanted.split(',').any(|w| w == krate) {
            return Compilation::Continue;
        }
        let Ok(out_dir) = std::env::var("LSMFACTS_OUT") else {
            return Compilation::Continue;
        };
        let mut j = json::J::new();
        j.obj_open();
        j.key("crate");
        j.str(&krate);
        j.key("rustc");
        j.str(&rustc_version());
        mirdump::dump_adts(tcx, &mut j);
        mirdump::dump_impls(tcx, &mut j);
        mirdump::dump_bodies(tcx, &mut j);
        hirdump::dump_hir(tcx, &mut j);
        j.obj_close();
        let path = format!("{out_dir}/{krate}.facts.json");
        let tmp = format!("{path}.tmp.{}", std::process::id());
        std::fs::write(&tmp, j.finish()).expect("write facts");
        std::fs::rename(&tmp, &path).expect("rename facts");
        Compilation::Continue
    }
}

fn rustc_version() -> String {
    option_env!("CFG_RELEASE").unwrap_or("nightly").to_string()
}

fn main() {
    let mut args: Vec<String> = std::env::args().collect();
    // RUSTC_WORKSPACE_WRAPPER: argv[1] is the path of the real rustc.
    if args.len() > 1 && (args[1].ends_with("rustc") || args[1].contains("/rustc")) {
        args.remove(1);
    }
    let mut cb = Cb;
    rustc_driver::run_compiler(&args, &mut cb);
}
