//! Minimal streaming JSON writer (no dependencies).

pub struct J {
    buf: String,
    /// per nesting level: has an element been written already?
    stack: Vec<bool>,
    after_key: bool,
}

impl J {
    pub fn new() -> Self {
        J { buf: String::with_capacity(1 << 24), stack: vec![false], after_key: false }
    }

    fn sep(&mut self) {
        if self.after_key {
            self.after_key = false;
            return;
        }
        if let Some(top) = self.stack.last_mut() {
            if *top {
                self.buf.push(',');
            }
            *top = true;
        }
    }

    pub fn obj_open(&mut self) {
        self.sep();
        self.buf.push('{');
        self.stack.push(false);
    }
    pub fn obj_close(&mut self) {
        self.stack.pop();
        self.buf.push('}');
    }
    pub fn arr_open(&mut self) {
        self.sep();
        self.buf.push('[');
        self.stack.push(false);
    }
    pub fn arr_close(&mut self) {
        self.stack.pop();
        self.buf.push(']');
    }
    pub fn key(&mut self, k: &str) {
        self.sep();
        self.push_str_lit(k);
        self.buf.push(':');
        self.after_key = true;
    }
    pub fn str(&mut self, s: &str) {
        self.sep();
        self.push_str_lit(s);
    }
    pub fn int(&mut self, i: i128) {
        self.sep();
        self.buf.push_str(&i.to_string());
    }
    pub fn uint(&mut self, i: usize) {
        self.sep();
        self.buf.push_str(&i.to_string());
    }
    pub fn bool(&mut self, b: bool) {
        self.sep();
        self.buf.push_str(if b { "true" } else { "false" });
    }
    pub fn null(&mut self) {
        self.sep();
        self.buf.push_str("null");
    }
    pub fn kstr(&mut self, k: &str, v: &str) {
        self.key(k);
        self.str(v);
    }
    pub fn kint(&mut self, k: &str, v: i128) {
        self.key(k);
        self.int(v);
    }
    pub fn kuint(&mut self, k: &str, v: usize) {
        self.key(k);
        self.uint(v);
    }
    pub fn kbool(&mut self, k: &str, v: bool) {
        self.key(k);
        self.bool(v);
    }

    fn push_str_lit(&mut self, s: &str) {
        self.buf.push('"');
        for c in s.chars() {
            match c {
                '"' => self.buf.push_str("\\\""),
                '\\' => self.buf.push_str("\\\\"),
                '\n' => self.buf.push_str("\\n"),
                '\r' => self.buf.push_str("\\r"),
                '\t' => self.buf.push_str("\\t"),
                c if (c as u32) < 0x20 => self.buf.push_str(&format!("\\u{:04x}", c as u32)),
                c => self.buf.push(c),
            }
        }
        self.buf.push('"');
    }

    pub fn finish(self) -> String {
        self.buf
    }
}
