//! ADT / impl / MIR facts.

use crate::json::J;
use rustc_hir::def::DefKind;
use rustc_middle::mir::{
    self, AggregateKind, BasicBlock, Body, Const, Operand, Place, PlaceRef, ProjectionElem, Rvalue,
    StatementKind, TerminatorKind,
};
use rustc_middle::ty::print::with_no_trimmed_paths;
use rustc_middle::ty::{self, Instance, InstanceKind, Ty, TyCtxt, TypingEnv};
use rustc_span::def_id::{DefId, LocalDefId};
use rustc_span::{ExpnKind, Span};

pub fn path_of(tcx: TyCtxt<'_>, did: DefId) -> String {
    with_no_trimmed_paths!(tcx.def_path_str(did))
}

pub fn ty_str<'tcx>(ty: Ty<'tcx>) -> String {
    with_no_trimmed_paths!(ty.to_string())
}

/// (file, line, macro-name-if-expanded) of a span, resolved to the outermost call site.
pub fn span_info(tcx: TyCtxt<'_>, span: Span) -> (String, usize, Option<String>) {
    let mut ex = None;
    if span.from_expansion() {
        let data = span.ctxt().outer_expn_data();
        ex = Some(match data.kind {
            ExpnKind::Macro(_, name) => name.to_string(),
            ExpnKind::Desugaring(d) => format!("desugar:{}", d.descr()),
            ExpnKind::AstPass(_) => "astpass".to_string(),
            ExpnKind::Root => "root".to_string(),
        });
    }
    let s = span.source_callsite();
    let sm = tcx.sess.source_map();
    let loc = sm.lookup_char_pos(s.lo());
    let file = match &loc.file.name {
        rustc_span::FileName::Real(r) => r
            .local_path()
            .map(|p| p.display().to_string())
            .unwrap_or_else(|| format!("{:?}", loc.file.name)),
        other => format!("{:?}", other),
    };
    (file, loc.line, ex)
}

pub fn put_span(tcx: TyCtxt<'_>, j: &mut J, span: Span) {
    let (_f, line, ex) = span_info(tcx, span);
    j.kuint("ln", line);
    if let Some(ex) = ex {
        j.kstr("ex", &ex);
    }
}

pub fn dump_adts(tcx: TyCtxt<'_>, j: &mut J) {
    j.key("adts");
    j.arr_open();
    for ldid in tcx.hir_crate_items(()).definitions() {
        let did = ldid.to_def_id();
        if !matches!(tcx.def_kind(did), DefKind::Struct | DefKind::Enum | DefKind::Union) {
            continue;
        }
        let adt = tcx.adt_def(did);
        j.obj_open();
        j.kstr("path", &path_of(tcx, did));
        j.kstr(
            "kind",
            if adt.is_enum() {
                "enum"
            } else if adt.is_union() {
                "union"
            } else {
                "struct"
            },
        );
        let (f, l, _) = span_info(tcx, tcx.def_span(did));
        j.kstr("file", &f);
        j.kuint("ln", l);
        j.key("variants");
        j.arr_open();
        for v in adt.variants() {
            j.obj_open();
            j.kstr("name", v.name.as_str());
            j.key("fields");
            j.arr_open();
            for fd in v.fields.iter() {
                j.obj_open();
                j.kstr("name", fd.name.as_str());
                let t = tcx.type_of(fd.did).instantiate_identity().skip_norm_wip();
                j.kstr("ty", &ty_str(t));
                j.kbool("pub", fd.vis.is_public());
                j.obj_close();
            }
            j.arr_close();
            j.obj_close();
        }
        j.arr_close();
        j.obj_close();
    }
    j.arr_close();
}

pub fn dump_impls(tcx: TyCtxt<'_>, j: &mut J) {
    j.key("impls");
    j.arr_open();
    for ldid in tcx.hir_crate_items(()).definitions() {
        let did = ldid.to_def_id();
        if !matches!(tcx.def_kind(did), DefKind::Impl { .. }) {
            continue;
        }
        j.obj_open();
        let self_ty = tcx.type_of(did).instantiate_identity().skip_norm_wip();
        j.kstr("self_ty", &ty_str(self_ty));
        match tcx.impl_opt_trait_ref(did) {
            Some(tr) => {
                let tr = tr.instantiate_identity().skip_norm_wip();
                j.kstr("trait", &path_of(tcx, tr.def_id));
                j.kstr("trait_ref", &with_no_trimmed_paths!(tr.to_string()));
            }
            None => {
                j.key("trait");
                j.null();
            }
        }
        j.kbool("derived", tcx.is_automatically_derived(did));
        let (f, l, _) = span_info(tcx, tcx.def_span(did));
        j.kstr("file", &f);
        j.kuint("ln", l);
        j.key("methods");
        j.arr_open();
        for it in tcx.associated_items(did).in_definition_order() {
            if !matches!(it.kind, ty::AssocKind::Fn { .. }) {
                continue;
            }
            j.obj_open();
            j.kstr("name", it.name().as_str());
            j.kstr("path", &path_of(tcx, it.def_id));
            if let Some(ti) = tcx.trait_item_of(it.def_id) {
                j.kstr("trait_item", &path_of(tcx, ti));
            }
            j.obj_close();
        }
        j.arr_close();
        j.obj_close();
    }
    j.arr_close();

    j.key("traits");
    j.arr_open();
    for ldid in tcx.hir_crate_items(()).definitions() {
        let did = ldid.to_def_id();
        if !matches!(tcx.def_kind(did), DefKind::Trait) {
            continue;
        }
        j.obj_open();
        j.kstr("path", &path_of(tcx, did));
        j.key("methods");
        j.arr_open();
        for it in tcx.associated_items(did).in_definition_order() {
            if !matches!(it.kind, ty::AssocKind::Fn { .. }) {
                continue;
            }
            j.obj_open();
            j.kstr("name", it.name().as_str());
            j.kstr("path", &path_of(tcx, it.def_id));
            j.kbool("provided", it.defaultness(tcx).has_value());
            j.obj_close();
        }
        j.arr_close();
        j.obj_close();
    }
    j.arr_close();
}

fn is_fn_like(tcx: TyCtxt<'_>, did: DefId) -> bool {
    matches!(tcx.def_kind(did), DefKind::Fn | DefKind::AssocFn | DefKind::Closure)
}

pub fn dump_bodies(tcx: TyCtxt<'_>, j: &mut J) {
    j.key("fns");
    j.arr_open();
    let mut keys: Vec<LocalDefId> = tcx.mir_keys(()).iter().copied().collect();
    keys.sort_by_key(|k| tcx.def_path_hash(k.to_def_id()));
    for ldid in keys {
        let did = ldid.to_def_id();
        if !is_fn_like(tcx, did) {
            continue;
        }
        if tcx.is_constructor(did) {
            continue;
        }
        let body = tcx.optimized_mir(did);
        dump_body(tcx, j, did, body);
    }
    j.arr_close();
}

fn dump_body<'tcx>(tcx: TyCtxt<'tcx>, j: &mut J, did: DefId, body: &Body<'tcx>) {
    let tenv = TypingEnv::post_analysis(tcx, did);
    j.obj_open();
    j.kstr("path", &path_of(tcx, did));
    let kind = match tcx.def_kind(did) {
        DefKind::Fn => "fn",
        DefKind::AssocFn => "assoc",
        DefKind::Closure => "closure",
        _ => "other",
    };
    j.kstr("kind", kind);
    let (f, l, ex) = span_info(tcx, body.span);
    j.kstr("file", &f);
    j.kuint("ln", l);
    {
        let sm = tcx.sess.source_map();
        let hi = sm.lookup_char_pos(body.span.source_callsite().hi());
        j.kuint("ln_end", hi.line);
    }
    if let Some(ex) = ex {
        j.kstr("ex", &ex);
    }
    if kind == "closure" {
        let root = tcx.typeck_root_def_id(did);
        j.kstr("root", &path_of(tcx, root));
        j.kstr("parent", &path_of(tcx, tcx.parent(did)));
    } else {
        j.kbool("pub", tcx.visibility(did).is_public());
        if let Some(ti) = tcx.trait_item_of(did) {
            j.kstr("trait_item", &path_of(tcx, ti));
        }
        if let Some(im) = tcx.impl_of_assoc(did) {
            let self_ty = tcx.type_of(im).instantiate_identity().skip_norm_wip();
            j.kstr("impl_self", &ty_str(self_ty));
            j.kbool("derived", tcx.is_automatically_derived(im));
        }
        if let Some(tr) = tcx.trait_of_assoc(did) {
            j.kstr("in_trait", &path_of(tcx, tr));
        }
    }
    j.kuint("argc", body.arg_count);
    j.key("locals");
    j.arr_open();
    for (_l, decl) in body.local_decls.iter_enumerated() {
        j.obj_open();
        j.kstr("ty", &ty_str(decl.ty));
        j.obj_close();
    }
    j.arr_close();
    j.key("vars");
    j.arr_open();
    for v in &body.var_debug_info {
        if let mir::VarDebugInfoContents::Place(p) = &v.value {
            j.obj_open();
            j.kstr("name", v.name.as_str());
            j.key("place");
            put_place(tcx, j, body, p);
            j.obj_close();
        }
    }
    j.arr_close();

    j.key("blocks");
    j.arr_open();
    for (_bb, data) in body.basic_blocks.iter_enumerated() {
        j.obj_open();
        if data.is_cleanup {
            j.kbool("cleanup", true);
        }
        j.key("stmts");
        j.arr_open();
        for st in &data.statements {
            match &st.kind {
                StatementKind::Assign(b) => {
                    let (place, rv) = &**b;
                    j.obj_open();
                    j.kstr("k", "assign");
                    j.key("to");
                    put_place(tcx, j, body, place);
                    j.key("rv");
                    put_rvalue(tcx, j, body, tenv, rv);
                    put_span(tcx, j, st.source_info.span);
                    j.obj_close();
                }
                StatementKind::SetDiscriminant { place, variant_index } => {
                    j.obj_open();
                    j.kstr("k", "setdiscr");
                    j.key("to");
                    put_place(tcx, j, body, place);
                    j.kuint("variant", variant_index.as_usize());
                    put_span(tcx, j, st.source_info.span);
                    j.obj_close();
                }
                _ => {}
            }
        }
        j.arr_close();
        j.key("term");
        let term = data.terminator();
        j.obj_open();
        match &term.kind {
            TerminatorKind::Goto { target } => {
                j.kstr("k", "goto");
                j.kuint("target", target.as_usize());
            }
            TerminatorKind::SwitchInt { discr, targets } => {
                j.kstr("k", "switch");
                j.key("discr");
                put_operand(tcx, j, body, tenv, discr);
                j.kstr("discr_ty", &ty_str(discr.ty(body, tcx)));
                j.key("targets");
                j.arr_open();
                for (v, t) in targets.iter() {
                    j.arr_open();
                    j.int(v as i128);
                    j.uint(t.as_usize());
                    j.arr_close();
                }
                j.arr_close();
                j.kuint("otherwise", targets.otherwise().as_usize());
            }
            TerminatorKind::UnwindResume => j.kstr("k", "resume"),
            TerminatorKind::UnwindTerminate(_) => j.kstr("k", "terminate"),
            TerminatorKind::Return => j.kstr("k", "return"),
            TerminatorKind::Unreachable => j.kstr("k", "unreachable"),
            TerminatorKind::Drop { place, target, unwind, .. } => {
                j.kstr("k", "drop");
                j.key("place");
                put_place(tcx, j, body, place);
                j.kstr("ty", &ty_str(place.ty(body, tcx).ty));
                j.kuint("target", target.as_usize());
                put_unwind(j, unwind);
            }
            TerminatorKind::Call { func, args, destination, target, unwind, fn_span, .. } => {
                j.kstr("k", "call");
                put_callee(tcx, j, body, tenv, func);
                j.key("args");
                j.arr_open();
                for a in args.iter() {
                    put_operand(tcx, j, body, tenv, &a.node);
                }
                j.arr_close();
                j.key("arg_tys");
                j.arr_open();
                for a in args.iter() {
                    j.str(&ty_str(a.node.ty(body, tcx)));
                }
                j.arr_close();
                j.key("dest");
                put_place(tcx, j, body, destination);
                if let Some(t) = target {
                    j.kuint("target", t.as_usize());
                }
                put_unwind(j, unwind);
                let (_f, l, _e) = span_info(tcx, *fn_span);
                j.kuint("fn_ln", l);
            }
            TerminatorKind::TailCall { func, args, .. } => {
                j.kstr("k", "tailcall");
                put_callee(tcx, j, body, tenv, func);
                j.key("args");
                j.arr_open();
                for a in args.iter() {
                    put_operand(tcx, j, body, tenv, &a.node);
                }
                j.arr_close();
            }
            TerminatorKind::Assert { cond, expected, target, unwind, msg } => {
                j.kstr("k", "assert");
                j.key("cond");
                put_operand(tcx, j, body, tenv, cond);
                j.kbool("expected", *expected);
                j.kuint("target", target.as_usize());
                put_unwind(j, unwind);
                j.kstr("msg", &format!("{:?}", msg).chars().take(60).collect::<String>());
            }
            TerminatorKind::FalseEdge { real_target, .. } => {
                j.kstr("k", "goto");
                j.kuint("target", real_target.as_usize());
            }
            TerminatorKind::FalseUnwind { real_target, .. } => {
                j.kstr("k", "goto");
                j.kuint("target", real_target.as_usize());
            }
            TerminatorKind::Yield { .. } => j.kstr("k", "yield"),
            TerminatorKind::CoroutineDrop => j.kstr("k", "coroutine_drop"),
            TerminatorKind::InlineAsm { .. } => j.kstr("k", "asm"),
        }
        put_span(tcx, j, term.source_info.span);
        j.obj_close();
        j.obj_close();
    }
    j.arr_close();
    j.obj_close();
}

fn put_unwind(j: &mut J, unwind: &mir::UnwindAction) {
    if let mir::UnwindAction::Cleanup(bb) = unwind {
        j.kuint("unwind", bb.as_usize());
    }
}

fn put_callee<'tcx>(
    tcx: TyCtxt<'tcx>,
    j: &mut J,
    body: &Body<'tcx>,
    tenv: TypingEnv<'tcx>,
    func: &Operand<'tcx>,
) {
    j.key("callee");
    j.obj_open();
    if let Some((cdid, args)) = func.const_fn_def() {
        j.kstr("path", &path_of(tcx, cdid));
        j.key("substs");
        j.arr_open();
        for a in args.iter() {
            j.str(&with_no_trimmed_paths!(a.to_string()));
        }
        j.arr_close();
        if let Some(tr) = tcx.trait_of_assoc(cdid) {
            j.kstr("trait", &path_of(tcx, tr));
        }
        let resolved = std::panic::catch_unwind(std::panic::AssertUnwindSafe(|| {
            Instance::try_resolve(tcx, tenv, cdid, args)
        }));
        match resolved {
            Ok(Ok(Some(inst))) => {
                let kind = match inst.def {
                    InstanceKind::Item(_) => "item",
                    InstanceKind::Virtual(..) => "virtual",
                    InstanceKind::Intrinsic(_) => "intrinsic",
                    InstanceKind::ClosureOnceShim { .. } => "closure_once_shim",
                    InstanceKind::FnPtrShim(..) => "fnptr_shim",
                    InstanceKind::DropGlue(..) => "drop_glue",
                    InstanceKind::CloneShim(..) => "clone_shim",
                    InstanceKind::ReifyShim(..) => "reify_shim",
                    _ => "other",
                };
                j.kstr("rkind", kind);
                j.kstr("res", &path_of(tcx, inst.def_id()));
                if inst.def_id().is_local() {
                    j.kbool("local", true);
                }
            }
            Ok(Ok(None)) => {
                j.kstr("rkind", "generic");
            }
            _ => {
                j.kstr("rkind", "error");
            }
        }
    } else {
        // indirect call through a fn pointer / closure value
        j.kstr("rkind", "indirect");
        j.key("op");
        put_operand(tcx, j, body, tenv, func);
        j.kstr("ty", &ty_str(func.ty(body, tcx)));
    }
    j.obj_close();
}

pub fn put_place<'tcx>(tcx: TyCtxt<'tcx>, j: &mut J, body: &Body<'tcx>, place: &Place<'tcx>) {
    j.obj_open();
    j.kuint("l", place.local.as_usize());
    if !place.projection.is_empty() {
        j.key("p");
        j.arr_open();
        for (i, elem) in place.projection.iter().enumerate() {
            let base = PlaceRef { local: place.local, projection: &place.projection[..i] };
            let bty = base.ty(body, tcx);
            match elem {
                ProjectionElem::Deref => j.str("*"),
                ProjectionElem::Field(fidx, _fty) => {
                    let s = match bty.ty.kind() {
                        ty::Adt(adt, _) => {
                            let v = bty.variant_index.unwrap_or(rustc_abi::FIRST_VARIANT);
                            let var = adt.variant(v);
                            let name = var.fields[fidx].name;
                            if adt.is_enum() {
                                format!(".{}:{}::{}", name, path_of(tcx, adt.did()), var.name)
                            } else {
                                format!(".{}:{}", name, path_of(tcx, adt.did()))
                            }
                        }
                        ty::Closure(cdid, _) => {
                            format!(".^{}:{}", fidx.as_usize(), path_of(tcx, *cdid))
                        }
                        _ => format!(".{}", fidx.as_usize()),
                    };
                    j.str(&s);
                }
                ProjectionElem::Index(l) => j.str(&format!("[_{}]", l.as_usize())),
                ProjectionElem::ConstantIndex { offset, from_end, .. } => {
                    j.str(&format!("[{}{}]", if from_end { "-" } else { "" }, offset))
                }
                ProjectionElem::Subslice { .. } => j.str("[..]"),
                ProjectionElem::Downcast(name, vidx) => {
                    let n = name.map(|s| s.to_string()).unwrap_or_else(|| vidx.as_usize().to_string());
                    j.str(&format!("as {}", n));
                }
                ProjectionElem::OpaqueCast(_) => j.str("opaque"),
                ProjectionElem::UnwrapUnsafeBinder(_) => j.str("unbinder"),
            }
        }
        j.arr_close();
    }
    j.obj_close();
}

pub fn put_operand<'tcx>(
    tcx: TyCtxt<'tcx>,
    j: &mut J,
    body: &Body<'tcx>,
    tenv: TypingEnv<'tcx>,
    op: &Operand<'tcx>,
) {
    match op {
        Operand::Copy(p) | Operand::Move(p) => {
            j.obj_open();
            j.kstr("o", if matches!(op, Operand::Copy(_)) { "copy" } else { "move" });
            j.kuint("l", p.local.as_usize());
            if !p.projection.is_empty() {
                j.key("pl");
                put_place(tcx, j, body, p);
            }
            j.obj_close();
        }
        Operand::Constant(c) => {
            j.obj_open();
            j.kstr("o", "const");
            let cty = c.const_.ty();
            j.kstr("ty", &ty_str(cty));
            match cty.kind() {
                ty::FnDef(d, _) => j.kstr("fn", &path_of(tcx, *d)),
                ty::Closure(d, _) => j.kstr("closure", &path_of(tcx, *d)),
                _ => {}
            }
            if let Const::Unevaluated(uv, _) = c.const_ {
                j.kstr("def", &path_of(tcx, uv.def));
                if uv.promoted.is_some() {
                    j.kbool("promoted", true);
                }
            }
            let is_prim = cty.is_integral() || cty.is_bool() || cty.is_char();
            if is_prim {
                let ev = std::panic::catch_unwind(std::panic::AssertUnwindSafe(|| {
                    c.const_.try_eval_scalar_int(tcx, tenv)
                }));
                if let Ok(Some(si)) = ev {
                    let bits = si.to_bits_unchecked();
                    if cty.is_signed() {
                        let size = si.size();
                        j.kstr("v", &size.sign_extend(bits).to_string());
                    } else {
                        j.kstr("v", &bits.to_string());
                    }
                }
            } else {
                let s = with_no_trimmed_paths!(format!("{}", c.const_));
                let s: String = s.chars().take(120).collect();
                j.kstr("s", &s);
            }
            j.obj_close();
        }
        Operand::RuntimeChecks(_) => {
            j.obj_open();
            j.kstr("o", "rtcheck");
            j.obj_close();
        }
    }
}

fn put_rvalue<'tcx>(
    tcx: TyCtxt<'tcx>,
    j: &mut J,
    body: &Body<'tcx>,
    tenv: TypingEnv<'tcx>,
    rv: &Rvalue<'tcx>,
) {
    j.obj_open();
    match rv {
        Rvalue::Use(op, ..) => {
            j.kstr("k", "use");
            j.key("op");
            put_operand(tcx, j, body, tenv, op);
        }
        Rvalue::Repeat(op, _) => {
            j.kstr("k", "repeat");
            j.key("op");
            put_operand(tcx, j, body, tenv, op);
        }
        Rvalue::Ref(_, bk, p) => {
            j.kstr("k", "ref");
            j.kbool("mut", matches!(bk, mir::BorrowKind::Mut { .. }));
            j.key("place");
            put_place(tcx, j, body, p);
        }
        Rvalue::ThreadLocalRef(d) => {
            j.kstr("k", "tlsref");
            j.kstr("def", &path_of(tcx, *d));
        }
        Rvalue::RawPtr(_, p) => {
            j.kstr("k", "rawptr");
            j.key("place");
            put_place(tcx, j, body, p);
        }
        Rvalue::Cast(ck, op, ty) => {
            j.kstr("k", "cast");
            j.kstr("cast", &format!("{:?}", ck).chars().take(40).collect::<String>());
            j.key("op");
            put_operand(tcx, j, body, tenv, op);
            j.kstr("ty", &ty_str(*ty));
        }
        Rvalue::BinaryOp(op, b) => {
            j.kstr("k", "bin");
            j.kstr("op", &format!("{:?}", op));
            j.key("a");
            put_operand(tcx, j, body, tenv, &b.0);
            j.key("b");
            put_operand(tcx, j, body, tenv, &b.1);
        }
        Rvalue::UnaryOp(op, a) => {
            j.kstr("k", "un");
            j.kstr("op", &format!("{:?}", op));
            j.key("a");
            put_operand(tcx, j, body, tenv, a);
        }
        Rvalue::Discriminant(p) => {
            j.kstr("k", "discr");
            j.key("place");
            put_place(tcx, j, body, p);
            j.kstr("ty", &ty_str(p.ty(body, tcx).ty));
        }
        Rvalue::Aggregate(kind, ops) => {
            j.kstr("k", "agg");
            match &**kind {
                AggregateKind::Array(_) => j.kstr("agg", "array"),
                AggregateKind::Tuple => j.kstr("agg", "tuple"),
                AggregateKind::Adt(d, vidx, _, _, _) => {
                    j.kstr("agg", "adt");
                    j.kstr("adt", &path_of(tcx, *d));
                    let adt = tcx.adt_def(*d);
                    let var = adt.variant(*vidx);
                    j.kstr("variant", var.name.as_str());
                    j.key("fields");
                    j.arr_open();
                    for fd in var.fields.iter() {
                        j.str(fd.name.as_str());
                    }
                    j.arr_close();
                }
                AggregateKind::Closure(d, _) => {
                    j.kstr("agg", "closure");
                    j.kstr("closure", &path_of(tcx, *d));
                }
                AggregateKind::Coroutine(d, _) => {
                    j.kstr("agg", "coroutine");
                    j.kstr("closure", &path_of(tcx, *d));
                }
                AggregateKind::CoroutineClosure(d, _) => {
                    j.kstr("agg", "coroutine_closure");
                    j.kstr("closure", &path_of(tcx, *d));
                }
                AggregateKind::RawPtr(..) => j.kstr("agg", "rawptr"),
            }
            j.key("ops");
            j.arr_open();
            for o in ops.iter() {
                put_operand(tcx, j, body, tenv, o);
            }
            j.arr_close();
        }
        Rvalue::CopyForDeref(p) => {
            j.kstr("k", "use");
            j.key("op");
            j.obj_open();
            j.kstr("o", "copy");
            j.kuint("l", p.local.as_usize());
            if !p.projection.is_empty() {
                j.key("pl");
                put_place(tcx, j, body, p);
            }
            j.obj_close();
        }
        Rvalue::WrapUnsafeBinder(op, _) => {
            j.kstr("k", "use");
            j.key("op");
            put_operand(tcx, j, body, tenv, op);
        }
    }
    j.obj_close();
}

#[allow(dead_code)]
fn _bb(b: BasicBlock) -> usize {
    b.as_usize()
}
