// F3 (C05): run under `strace -f -e trace=openat,fsync` — the blobs/ directory must be fsynced after blobs/0 was
// created and before `current` is replaced.
use lsm_tree::{AbstractTree, Config, KvSeparationOptions, SequenceNumberCounter};
fn main() -> lsm_tree::Result<()> {
    let folder = tempfile::tempdir()?;
    let tree = Config::new(folder.path(), SequenceNumberCounter::default(), SequenceNumberCounter::default())
        .with_kv_separation(Some(KvSeparationOptions::default().separation_threshold(1)))
        .open()?;
    eprintln!("F3-MARK start flush");
    tree.insert("a", "aaaaaaaa", 0);
    tree.flush_active_memtable(0)?;
    eprintln!("F3-MARK end flush");
    Ok(())
}
