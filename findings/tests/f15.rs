// F15 (C20): a flush whose sealed memtables disappeared meanwhile (clear()) is discarded by register_tables, but the
// table files it wrote are neither registered nor marked deleted: they stay in tables/ until the next reopen, named by
// no version, whatever maintenance runs.
use lsm_tree::{AbstractTree, Config, SeqNo, SequenceNumberCounter};

fn table_files(p: &std::path::Path) -> Vec<String> {
    let mut v: Vec<_> = std::fs::read_dir(p.join("tables")).unwrap().map(|e| e.unwrap().file_name().to_string_lossy().into_owned()).collect();
    v.sort();
    v
}

#[test]
fn f15_discarded_flush_leaves_no_files() -> lsm_tree::Result<()> {
    let folder = tempfile::tempdir()?;
    let tree = Config::new(folder.path(), SequenceNumberCounter::default(), SequenceNumberCounter::default()).open()?;
    tree.insert("a", "a", 1);

    // the steps of AbstractTree::flush (what a background flush worker does) ...
    let flush_lock = tree.get_flush_lock();
    let sealed = tree.rotate_memtable().expect("memtable is not empty");
    let sealed_ids = [sealed.id()];
    let (tables, blob_files) = tree.flush_to_tables(sealed.iter().map(Ok))?.expect("should have created a table");
    // ... with a clear() before the flush registers its result
    tree.clear()?;
    tree.register_tables(&tables, blob_files.as_deref(), None, &sealed_ids, 0)?;
    drop(flush_lock);
    drop(tables);
    drop(sealed);

    assert_eq!(0, tree.table_count());
    assert_eq!(None, tree.get("a", SeqNo::MAX)?);
    // maintenance with a watermark above everything, no reader open
    tree.insert("z", "z", 10);
    tree.flush_active_memtable(SeqNo::MAX)?;
    tree.insert("y", "y", 11);
    tree.flush_active_memtable(SeqNo::MAX)?;
    let named: Vec<String> = { let mut v: Vec<_> = tree.current_version().iter_tables().map(|t| t.id().to_string()).collect(); v.sort(); v };
    assert_eq!(named, table_files(folder.path()), "tables/ holds a file that no version names");
    Ok(())
}
