// F5 (C07/C01): with_moved builds one run out of tables of several (overlapping) runs.
use lsm_tree::{AbstractTree, Guard, Config, SeqNo, SequenceNumberCounter};

#[test]
fn f5_move_down_two_runs() -> lsm_tree::Result<()> {
    let folder = tempfile::tempdir()?;
    let seqno = SequenceNumberCounter::default();
    let tree = Config::new(folder.path(), seqno.clone(), SequenceNumberCounter::default()).open()?;
    // run 1 (older): a..z
    tree.insert("a", "old", seqno.next());
    tree.insert("z", "old", seqno.next());
    tree.flush_active_memtable(0)?;
    // run 2 (newer): b..c, overlapping run 1
    tree.insert("b", "new", seqno.next());
    tree.insert("c", "new", seqno.next());
    tree.flush_active_memtable(0)?;
    assert_eq!(2, tree.l0_run_count());
    let before: Vec<_> = tree.iter(SeqNo::MAX, None).map(|g| g.key().unwrap()).collect();
    assert!(tree.get("a", SeqNo::MAX)?.is_some());
    tree.compact(std::sync::Arc::new(lsm_tree::compaction::MoveDown(0, 6)), 0)?;
    let after: Vec<_> = tree.iter(SeqNo::MAX, None).map(|g| g.key().unwrap()).collect();
    eprintln!("before {before:?} after {after:?}");
    assert!(tree.get("a", SeqNo::MAX)?.is_some(), "a moved table must stay readable");
    assert!(tree.get("z", SeqNo::MAX)?.is_some(), "a moved table must stay readable");
    assert_eq!(before, after, "scan must be unchanged by a move");
    Ok(())
}
