// F9 candidate (C13): weak-tombstone annihilation drains the *whole* older tail of the key, including an older weak
// tombstone that still shadows a value in a deeper level.
use lsm_tree::{AbstractTree, Config, SeqNo, SequenceNumberCounter};

fn run(weak: bool) -> lsm_tree::Result<Option<Vec<u8>>> {
    let folder = tempfile::tempdir()?;
    let tree = Config::new(folder.path(), SequenceNumberCounter::default(), SequenceNumberCounter::default()).open()?;
    tree.insert("a", "v0", 0);
    tree.flush_active_memtable(0)?;
    tree.major_compact(u64::MAX, 0)?; // v0 now lives in the last level
    if weak { tree.remove_weak("a", 1); } else { tree.remove("a", 1); }
    tree.insert("a", "v2", 2);
    if weak { tree.remove_weak("a", 3); } else { tree.remove("a", 3); }
    // flush with a GC watermark above everything (no snapshot is open)
    tree.flush_active_memtable(10)?;
    Ok(tree.get("a", SeqNo::MAX)?.map(|v| v.to_vec()))
}

#[test]
fn f9_weak_delete_twice_over_deep_value() -> lsm_tree::Result<()> {
    let strong = run(false)?;
    let weak = run(true)?;
    eprintln!("remove: {strong:?}  remove_weak: {weak:?}");
    assert_eq!(None, strong);
    assert_eq!(strong, weak, "remove_weak must behave like remove for a key written once per delete");
    Ok(())
}
