// F14 candidate (C15 / C06): clear() only takes the version-history write lock.  A merge compaction that is already running
// (inputs hidden, no lock held while it merges) later commits with_merge on the *cleared* version: its output tables - holding
// the data from before the clear - are inserted into the empty version, and the cleared keys are back.
use lsm_tree::compaction::filter::{CompactionFilter, Context, Factory, ItemAccessor, Verdict};
use lsm_tree::{AbstractTree, Config, SeqNo, SequenceNumberCounter};
use std::sync::{Arc, Condvar, Mutex};

#[derive(Default)]
struct Gate { state: Mutex<(bool, bool)>, cv: Condvar }   // (parked, released)

struct F(Arc<Gate>);
impl CompactionFilter for F {
    fn filter_item(&mut self, _item: ItemAccessor<'_>, _ctx: &Context) -> lsm_tree::Result<Verdict> {
        let mut st = self.0.state.lock().unwrap();
        if !st.1 {
            st.0 = true;
            self.0.cv.notify_all();
            while !st.1 { st = self.0.cv.wait(st).unwrap(); }
        }
        Ok(Verdict::Keep)
    }
}
struct FF(Arc<Gate>);
impl Factory for FF {
    fn name(&self) -> &str { "f14" }
    fn make_filter(&self, _ctx: &Context) -> Box<dyn CompactionFilter> { Box::new(F(self.0.clone())) }
}

#[test]
fn f14_clear_during_running_compaction() -> lsm_tree::Result<()> {
    let folder = tempfile::tempdir()?;
    let gate = Arc::new(Gate::default());
    let tree = Config::new(folder.path(), SequenceNumberCounter::default(), SequenceNumberCounter::default())
        .with_compaction_filter_factory(Some(Arc::new(FF(gate.clone()))))
        .open()?;
    tree.insert("a", "old", 1);
    tree.insert("z", "old", 2);
    tree.flush_active_memtable(0)?;
    tree.insert("b", "old", 3);
    tree.insert("y", "old", 4);
    tree.flush_active_memtable(0)?;

    let t2 = tree.clone();
    let compactor = std::thread::spawn(move || t2.compact(Arc::new(lsm_tree::compaction::Leveled::default().with_l0_threshold(2)), 0));
    // wait until the compaction is inside its merge loop
    { let mut st = gate.state.lock().unwrap(); while !st.0 { st = gate.cv.wait(st).unwrap(); } }

    // clear() while the compaction is in flight (it may have to wait for it), then let the compaction go on
    let t3 = tree.clone();
    let clearer = std::thread::spawn(move || t3.clear());
    std::thread::sleep(std::time::Duration::from_millis(300));
    { let mut st = gate.state.lock().unwrap(); st.1 = true; gate.cv.notify_all(); }
    compactor.join().unwrap()?;
    clearer.join().unwrap()?;

    assert_eq!(0, tree.len(SeqNo::MAX, None)?, "the tree was cleared");
    assert_eq!(None, tree.get("a", SeqNo::MAX)?.map(|v| v.to_vec()), "a cleared key is back");
    Ok(())
}
