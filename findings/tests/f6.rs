// F6 (C16): drop_tables returns the maintenance error after the drop was published.
use lsm_tree::{AbstractTree, Config, SeqNo, SequenceNumberCounter};

#[test]
fn f6_failed_fifo_changes_nothing() -> lsm_tree::Result<()> {
    let folder = tempfile::tempdir()?;
    let seqno = SequenceNumberCounter::default();
    let tree = Config::new(folder.path(), seqno.clone(), SequenceNumberCounter::default()).open()?;
    for i in 0..3u64 {
        tree.insert(format!("k{i}"), "v".repeat(100), seqno.next());
        tree.flush_active_memtable(0)?;
    }
    assert_eq!(3, tree.table_count());
    // make the unlink of an old version file fail: replace it by a directory
    let v1 = folder.path().join("v1");
    assert!(v1.exists());
    std::fs::remove_file(&v1)?;
    std::fs::create_dir(&v1)?;
    let r = tree.compact(std::sync::Arc::new(lsm_tree::compaction::Fifo::new(1, None)), SeqNo::MAX);
    eprintln!("compact -> {r:?}; table_count={}", tree.table_count());
    if r.is_err() {
        assert_eq!(3, tree.table_count(), "a failed compaction must change nothing");
        assert!(tree.get("k0", SeqNo::MAX)?.is_some(), "a failed compaction must change nothing");
    }
    Ok(())
}
