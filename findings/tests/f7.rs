// F7 (C20): an empty ingestion leaves its pre-created table file behind.
use lsm_tree::{AbstractTree, Config, SequenceNumberCounter};

#[test]
fn f7_empty_ingestion_leaves_no_file() -> lsm_tree::Result<()> {
    let folder = tempfile::tempdir()?;
    let tree = Config::new(folder.path(), SequenceNumberCounter::default(), SequenceNumberCounter::default()).open()?;
    tree.ingestion()?.finish()?;
    assert_eq!(0, tree.table_count());
    let files: Vec<_> = std::fs::read_dir(folder.path().join("tables"))?.map(|e| e.unwrap().file_name()).collect();
    eprintln!("tables/ contains {files:?}");
    assert!(files.is_empty(), "no table file may be left behind by an empty ingestion");
    Ok(())
}
