// F1 (C09): with_dropped forgets on_disk_bytes when a second table pointing into the same blob file is dropped.
use lsm_tree::{config::BlockSizePolicy, AbstractTree, Config, KvSeparationOptions, SeqNo, SequenceNumberCounter};

#[test]
fn f1_with_dropped_on_disk_bytes() -> lsm_tree::Result<()> {
    let folder = tempfile::tempdir()?;
    let tree = Config::new(folder.path(), SequenceNumberCounter::default(), SequenceNumberCounter::default())
        .data_block_size_policy(BlockSizePolicy::all(1))
        .with_kv_separation(Some(
            KvSeparationOptions::default().separation_threshold(1).compression(lsm_tree::CompressionType::None),
        ))
        .open()?;
    tree.insert("a", "aaaa", 0);
    tree.insert("b", "bbbb", 1);
    tree.insert("c", "cccc", 2);
    tree.flush_active_memtable(0)?;
    tree.major_compact(1, 0)?;
    assert_eq!(3, tree.table_count(), "need 3 tables pointing into one blob file");
    assert_eq!(1, tree.blob_file_count());
    tree.drop_range("a"..="a")?;
    tree.drop_range("b"..="b")?;
    let v = tree.current_version();
    let gc = v.gc_stats();
    let e = gc.get(&0).expect("entry for blob file 0");
    eprintln!("gc entry: {e:?}");
    // no compression: on-disk bytes equal uncompressed bytes for every blob (2 blobs of 4 bytes dropped)
    assert_eq!(&lsm_tree::blob_tree::FragmentationEntry::new(2, 8, 8), e, "on_disk_bytes must be accumulated like bytes");
    Ok(())
}
