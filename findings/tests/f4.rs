// F4 (C10): the version file is never verified against the checksum stored in `current`.
use lsm_tree::{AbstractTree, Guard, Config, SeqNo, SequenceNumberCounter};

fn copy_dir(src: &std::path::Path, dst: &std::path::Path) {
    std::fs::create_dir_all(dst).unwrap();
    for e in std::fs::read_dir(src).unwrap() {
        let e = e.unwrap();
        let to = dst.join(e.file_name());
        if e.file_type().unwrap().is_dir() { copy_dir(&e.path(), &to); } else { std::fs::copy(e.path(), to).unwrap(); }
    }
}

fn snapshot(tree: &lsm_tree::AnyTree) -> Vec<(Vec<u8>, Vec<u8>)> {
    tree.iter(SeqNo::MAX, None).map(|g| { let (k, v) = g.into_inner().unwrap(); (k.to_vec(), v.to_vec()) }).collect()
}

#[test]
fn f4_version_file_bitflips() -> lsm_tree::Result<()> {
    let folder = tempfile::tempdir()?;
    let vname;
    let expected;
    {
        let seqno = SequenceNumberCounter::default();
        let tree = Config::new(folder.path(), seqno.clone(), SequenceNumberCounter::default()).open()?;
        tree.insert("a", "old", seqno.next());
        tree.flush_active_memtable(0)?;
        let mut ing = tree.ingestion()?;
        ing.write("a", "new")?;
        ing.write("b", "new")?;
        ing.finish()?;
        expected = snapshot(&tree);
        vname = format!("v{}", tree.current_version().id());
    }
    let orig = std::fs::read(folder.path().join(&vname))?;
    let mut silent = vec![];
    for pos in 0..orig.len() {
        let scratch = tempfile::tempdir()?;
        copy_dir(folder.path(), scratch.path());
        let mut bytes = orig.clone();
        bytes[pos] ^= 0x01;
        std::fs::write(scratch.path().join(&vname), &bytes)?;
        let r = Config::new(scratch.path(), SequenceNumberCounter::default(), SequenceNumberCounter::default()).open();
        if let Ok(tree) = r {
            let got = std::panic::catch_unwind(std::panic::AssertUnwindSafe(|| snapshot(&tree)));
            match got {
                Ok(got) if got != expected => silent.push((pos, got.len())),
                _ => {}
            }
        }
    }
    eprintln!("{} of {} single-bit flips silently changed the content: {:?}", silent.len(), orig.len(), &silent[..silent.len().min(8)]);
    assert!(silent.is_empty(), "a corrupted version file must be reported, not served");
    Ok(())
}
