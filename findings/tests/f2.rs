// F2 (C20): clear() never marks the tables of the cleared version as deleted.
use lsm_tree::{AbstractTree, Config, SeqNo, SequenceNumberCounter};

fn table_files(p: &std::path::Path) -> Vec<String> {
    let mut v: Vec<String> = std::fs::read_dir(p.join("tables")).unwrap()
        .map(|e| e.unwrap().file_name().to_string_lossy().to_string()).collect();
    v.sort();
    v
}

#[test]
fn f2_clear_reclaims_files() -> lsm_tree::Result<()> {
    let folder = tempfile::tempdir()?;
    let seqno = SequenceNumberCounter::default();
    let tree = Config::new(folder.path(), seqno.clone(), SequenceNumberCounter::default()).open()?;
    for i in 0..3u64 {
        tree.insert(format!("k{i}"), "v", seqno.next());
        tree.flush_active_memtable(0)?;
    }
    assert_eq!(3, tree.table_count());
    tree.clear()?;
    assert_eq!(0, tree.table_count());
    tree.insert("x", "v", seqno.next());
    tree.flush_active_memtable(SeqNo::MAX)?;
    // maintenance with a watermark above every version change, no reader holds an older view
    tree.compact(std::sync::Arc::new(lsm_tree::compaction::Leveled::default()), SeqNo::MAX)?;
    tree.major_compact(u64::MAX, SeqNo::MAX)?;
    let named: Vec<String> = tree.current_version().iter_tables().map(|t| t.id().to_string()).collect();
    let on_disk = table_files(folder.path());
    eprintln!("version names {named:?}, disk has {on_disk:?}");
    assert_eq!(named.len(), on_disk.len(), "obsolete table files must be reclaimed");
    Ok(())
}
