// F8 candidate (C09/C08): a stale GC entry of a dropped blob file survives; after reopen the blob file id is reused and
// the new file inherits the entry -> judged dead while referenced.
use lsm_tree::{AbstractTree, Config, KvSeparationOptions, SeqNo, SequenceNumberCounter};

#[test]
fn f8_blob_id_reuse_inherits_stale_gc_entry() -> lsm_tree::Result<()> {
    let folder = tempfile::tempdir()?;
    let big = b"neptune!".repeat(1_000);
    let open = |p: &std::path::Path| {
        Config::new(p, SequenceNumberCounter::default(), SequenceNumberCounter::default())
            .with_kv_separation(Some(KvSeparationOptions::default().compression(lsm_tree::CompressionType::None)))
            .open()
    };
    {
        let tree = open(folder.path())?;
        tree.insert("big", &big, 0);
        tree.flush_active_memtable(0)?;
        assert_eq!(1, tree.blob_file_count());
        tree.drop_range::<&[u8], _>(..)?;
        assert_eq!(0, tree.blob_file_count());
        eprintln!("gc stats after drop: {:?}", tree.current_version().gc_stats());
    }
    {
        let tree = open(folder.path())?;
        eprintln!("gc stats after reopen: {:?}", tree.current_version().gc_stats());
        tree.insert("big2", &big, 1);
        tree.flush_active_memtable(0)?;
        assert_eq!(1, tree.blob_file_count());
        eprintln!("blob file ids: {:?}, stale bytes {}", tree.current_version().blob_files.iter().map(|b| b.id()).collect::<Vec<_>>(), tree.stale_blob_bytes());
        let new_id = tree.current_version().blob_files.iter().map(|b| b.id()).next().unwrap();
        let inherited = tree.current_version().gc_stats().get(&new_id).copied();
        tree.major_compact(u64::MAX, 0)?;
        tree.major_compact(u64::MAX, 0)?;
        assert_eq!(1, tree.blob_file_count(), "the blob file is still referenced");
        assert_eq!(Some(big.len()), tree.get("big2", SeqNo::MAX)?.map(|v| v.len()));
        assert_eq!(None, inherited, "a freshly written blob file has no garbage recorded for it");
    }
    Ok(())
}
