// F12 candidate (C08 / C14): blobs written by a bulk ingestion carry seqno 0 in their frame header while the pointer's
// effective seqno is the ingestion's global seqno.  The relocation scanner merges the blob files being rewritten by
// (key, Reverse(frame seqno)); the compaction stream orders by (key, Reverse(effective seqno)).  When two retained versions of
// one key live in two blob files that are rewritten together, the orders disagree: drain_blobs throws away the blob the second
// pointer needs and the compaction panics.
use lsm_tree::compaction::filter::{CompactionFilter, Context, Factory, ItemAccessor, Verdict};
use lsm_tree::{AbstractTree, Config, KvSeparationOptions, SeqNo, SequenceNumberCounter};
use std::sync::Arc;

struct F;
impl CompactionFilter for F {
    fn filter_item(&mut self, item: ItemAccessor<'_>, _ctx: &Context) -> lsm_tree::Result<Verdict> {
        if item.key().starts_with(b"h") { Ok(Verdict::Remove) } else { Ok(Verdict::Keep) }
    }
}
struct FF;
impl Factory for FF {
    fn name(&self) -> &str { "f12" }
    fn make_filter(&self, _ctx: &Context) -> Box<dyn CompactionFilter> { Box::new(F) }
}

#[test]
fn f12_relocation_of_two_ingested_versions() -> lsm_tree::Result<()> {
    let folder = tempfile::tempdir()?;
    let tree = Config::new(folder.path(), SequenceNumberCounter::default(), SequenceNumberCounter::default())
        .with_kv_separation(Some(
            KvSeparationOptions::default().separation_threshold(1).age_cutoff(1.0).staleness_threshold(0.01)
                .compression(lsm_tree::CompressionType::None),
        ))
        .with_compaction_filter_factory(Some(Arc::new(FF)))
        .open()?;

    let mut ing = tree.ingestion()?;
    ing.write("big", "first version")?;
    ing.write("h0", "helper that the filter removes (garbage for blob file 0)")?;
    ing.finish()?;
    let snapshot = tree.get_highest_seqno().map(|s| s + 1).unwrap_or(1);
    assert_eq!(Some(&b"first version"[..]), tree.get("big", snapshot)?.as_deref());

    let mut ing = tree.ingestion()?;
    ing.write("big", "second version")?;
    ing.write("h1", "helper that the filter removes (garbage for blob file 1)")?;
    ing.finish()?;
    assert_eq!(2, tree.blob_file_count());

    // a reader still holds `snapshot`: nothing may be garbage-collected (watermark 0); the filter removes h0 / h1
    tree.major_compact(u64::MAX, 0)?;
    eprintln!("gc stats after 1st compaction: {:?}", tree.current_version().gc_stats());
    assert_eq!(Some(&b"first version"[..]), tree.get("big", snapshot)?.as_deref());
    assert_eq!(Some(&b"second version"[..]), tree.get("big", SeqNo::MAX)?.as_deref());

    // both blob files are fragmented now and get rewritten together
    tree.major_compact(u64::MAX, 0)?;
    eprintln!("blob files after 2nd compaction: {:?}", tree.current_version().blob_files.iter().map(|b| b.id()).collect::<Vec<_>>());
    assert_eq!(Some(&b"first version"[..]), tree.get("big", snapshot)?.as_deref());
    assert_eq!(Some(&b"second version"[..]), tree.get("big", SeqNo::MAX)?.as_deref());
    Ok(())
}
