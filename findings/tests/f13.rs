// Side experiment (NOT a seeded defect): insert, weak delete, insert, weak delete,
// with the first value sitting in the last level.

use lsm_tree::{
    compaction::PullDown, get_tmp_folder, AbstractTree, Config, SeqNo, SequenceNumberCounter,
};
use std::sync::Arc;

fn history(weak: bool) -> lsm_tree::Result<Option<Vec<u8>>> {
    let folder = get_tmp_folder();

    let tree = Config::new(
        &folder,
        SequenceNumberCounter::default(),
        SequenceNumberCounter::default(),
    )
    .open()?;

    tree.insert("k", "v1", 1);
    tree.flush_active_memtable(0)?;
    tree.compact(Arc::new(PullDown(0, 6)), 0)?;

    if weak {
        tree.remove_weak("k", 2);
    } else {
        tree.remove("k", 2);
    }
    tree.flush_active_memtable(0)?;

    tree.insert("k", "v3", 3);
    tree.flush_active_memtable(0)?;

    tree.compact(Arc::new(PullDown(0, 3)), 100)?;

    if weak {
        tree.remove_weak("k", 4);
    } else {
        tree.remove("k", 4);
    }
    tree.flush_active_memtable(0)?;
    tree.compact(Arc::new(PullDown(0, 3)), 100)?;

    Ok(tree.get("k", SeqNo::MAX)?.map(|v| v.to_vec()))
}

#[test]
fn seeded4_c13_side() -> lsm_tree::Result<()> {
    let strong = history(false)?;
    let weak = history(true)?;
    eprintln!("strong={strong:?} weak={weak:?}");
    assert_eq!(strong, weak);
    Ok(())
}
