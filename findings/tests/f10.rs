// F10 candidate (C02): version GC in the compaction stream tests the OLDER entry's seqno against the watermark, not the
// newer one's: an entry a snapshot at/above the watermark still needs is dropped.
use lsm_tree::{AbstractTree, Config, SeqNo, SequenceNumberCounter};

#[test]
fn f10_gc_keeps_what_a_snapshot_above_the_watermark_sees() -> lsm_tree::Result<()> {
    let folder = tempfile::tempdir()?;
    let tree = Config::new(folder.path(), SequenceNumberCounter::default(), SequenceNumberCounter::default()).open()?;
    tree.insert("a", "old", 3);
    tree.insert("a", "new", 5);
    let watermark: SeqNo = 4;
    for snapshot in [4u64, 5] {
        assert_eq!(Some(b"old".to_vec()), tree.get("a", snapshot)?.map(|v| v.to_vec()), "before, snapshot {snapshot}");
    }
    // flush with a GC watermark of 4: every snapshot >= 4 must keep its view
    tree.flush_active_memtable(watermark)?;
    for snapshot in [4u64, 5] {
        let got = tree.get("a", snapshot)?.map(|v| v.to_vec());
        eprintln!("snapshot {snapshot}: {:?}", got.as_ref().map(|v| String::from_utf8_lossy(v).to_string()));
        assert_eq!(Some(b"old".to_vec()), got, "after flush with watermark {watermark}, snapshot {snapshot}");
    }
    Ok(())
}
