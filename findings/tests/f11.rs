// F11 candidate (C08/C09/C20): a live blob with an empty value contributes 0 bytes; when every non-empty blob of its file is
// stale, is_dead (bytes only) judges the file dead although the empty value's pointer still points into it.
use lsm_tree::{AbstractTree, Config, KvSeparationOptions, SeqNo, SequenceNumberCounter};

#[test]
fn f11_empty_separated_value_survives_gc() -> lsm_tree::Result<()> {
    let folder = tempfile::tempdir()?;
    let tree = Config::new(folder.path(), SequenceNumberCounter::default(), SequenceNumberCounter::default())
        .with_kv_separation(Some(KvSeparationOptions::default().separation_threshold(0).compression(lsm_tree::CompressionType::None)))
        .open()?;
    tree.insert("a", "some value", 0);
    tree.insert("e", "", 1);
    tree.flush_active_memtable(0)?;
    assert_eq!(1, tree.blob_file_count());
    assert_eq!(Some(0), tree.get("e", SeqNo::MAX)?.map(|v| v.len()));
    // overwrite "a": its old blob becomes garbage at the next compaction
    tree.insert("a", "another value", 2);
    tree.flush_active_memtable(0)?;
    tree.major_compact(u64::MAX, SeqNo::MAX)?;
    eprintln!("after 1st compaction: blob files {:?} gc {:?}", tree.current_version().blob_files.iter().map(|b| b.id()).collect::<Vec<_>>(), tree.current_version().gc_stats());
    tree.major_compact(u64::MAX, SeqNo::MAX)?;
    eprintln!("after 2nd compaction: blob files {:?} gc {:?}", tree.current_version().blob_files.iter().map(|b| b.id()).collect::<Vec<_>>(), tree.current_version().gc_stats());
    drop(tree);
    let tree = Config::new(folder.path(), SequenceNumberCounter::default(), SequenceNumberCounter::default())
        .with_kv_separation(Some(KvSeparationOptions::default().separation_threshold(0).compression(lsm_tree::CompressionType::None)))
        .open()?;
    eprintln!("after reopen: blob files {:?}", tree.current_version().blob_files.iter().map(|b| b.id()).collect::<Vec<_>>());
    assert_eq!(Some(13), tree.get("a", SeqNo::MAX)?.map(|v| v.len()));
    assert_eq!(Some(0), tree.get("e", SeqNo::MAX)?.map(|v| v.len()), "the empty value is still there");
    Ok(())
}
