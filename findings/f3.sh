#!/bin/sh
# prints PASS when the blobs/ directory is fsynced between the creation of blobs/0 and the switch of `current`
cargo build --offline --bin f3 2>/dev/null
strace -f -e trace=openat,fsync,rename,renameat,renameat2,write -s 64 -o /tmp/f3.trace ./target/debug/f3 2>/dev/null
python3 - <<'PY'
import re
lines=open('/tmp/f3.trace').read().splitlines()
start=[i for i,l in enumerate(lines) if 'F3-MARK start' in l][0]
end=[i for i,l in enumerate(lines) if 'F3-MARK end' in l][0]
fds={}
created=None; dirsync=False
for l in lines[start:end]:
    m=re.search(r'openat\(AT_FDCWD, "([^"]+)", ([A-Z_|]+).*\) = (\d+)',l)
    if m:
        fds[m.group(3)]=m.group(1)
        if m.group(1).endswith('/blobs/0') and 'O_CREAT' in m.group(2): created=True
    m=re.search(r'fsync\((\d+)\)',l)
    if m and created and fds.get(m.group(1),'').endswith('/blobs'): dirsync=True
print("blob file created:",created,"; blobs/ directory fsynced afterwards:",dirsync)
print("PASS" if (created and dirsync) else "FAIL")
PY
